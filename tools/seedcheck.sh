#!/bin/bash
# usage: tools/seedcheck.sh <prop-id> <worktree> [seed-name]
# Confirms a seeded change (demo fails with it, passes without, package tests pass),
# stores it under /verif/seeded/<name>/ and runs the property's quick check against it.
set -u
export GOFLAGS=-mod=mod GOPROXY=off
P=$1; WT=$2; NAME=${3:-$P}
S=$WT/_seed
if [ "${PHASE:-all}" = "check" ]; then
  S=/verif/seeded/$NAME
  read ORIG CHG EX < $S/.confirm
  git -C /repo apply $S/patch.diff || { echo "cannot apply to /repo"; exit 2; }
  /verif/bin/gosmt run -prop $P -no-evidence ${TIER:+-tier $TIER} 2>&1 | grep -v "^\s\|^=== \|^--- \|^PASS\|^ok \|^FAIL\|^$" | tail -6; RC=${PIPESTATUS[0]}
  git -C /repo checkout -- .
  echo "check_exit=$RC"
  python3 - "$P" "$NAME" "$ORIG" "$CHG" "$EX" "$RC" <<'PY'
import json,sys
p,name,orig,chg,ex,rc=sys.argv[1:]
json.dump({"property":p,"seed":name,"demo_on_original_exit":int(orig),"demo_with_change_exit":int(chg),"existing_tests_exit":int(ex),"quick_check_exit":int(rc),
 "detected": int(rc)==1, "confirmed": int(orig)==0 and int(chg)!=0 and int(ex)==0,
 "ran":["go test -run TestSeedDemo on a pristine worktree and with the patch applied","go test of the touched packages with the patch","/verif/bin/gosmt run -prop %s (quick) with the patch applied to /repo, then git checkout"%p]},
 open(f"/verif/seeded/{name}/meta.json","w"),indent=1)
PY
  exit 0
fi
[ -f $S/patch.diff ] || { echo "no patch"; exit 2; }
LOC=$(cat $S/demo_location.txt | tr -d '\n ')
[ -z "$LOC" ] && LOC=.
cd $WT
# pristine copy in a second scratch worktree
CW=/tmp/confirm_$NAME
git -C /repo worktree remove --force $CW 2>/dev/null
git -C /repo worktree add -q --detach $CW HEAD
cp $S/zz_seed_demo_test.go $CW/$LOC/zz_seed_demo_test.go
cd $CW
echo "== demo on original code (must pass)"
go test -count=1 -run '^TestSeedDemo$' ./$LOC 2>&1 | tail -3; ORIG=${PIPESTATUS[0]}
git apply $S/patch.diff || { echo "patch does not apply"; exit 2; }
echo "== build"
go build ./... 2>&1 | tail -3
echo "== demo with change (must fail)"
go test -count=1 -run '^TestSeedDemo$' ./$LOC 2>&1 | tail -5; CHG=${PIPESTATUS[0]}
echo "== existing tests of touched packages"
PKGS=$(git diff --name-only | xargs -n1 dirname | sort -u | sed 's|^|./|')
rm $CW/$LOC/zz_seed_demo_test.go
if echo "$PKGS" | grep -qx "./."; then
  timeout 1500 go test -count=1 -timeout 20m . 2>&1 | grep -e "^--- FAIL" -e "^ok" -e "^FAIL" | tail -8; EX=${PIPESTATUS[0]}
else
  go test -count=1 $PKGS 2>&1 | tail -3; EX=${PIPESTATUS[0]}
fi
echo "orig=$ORIG changed=$CHG existing=$EX"
cd /verif
git -C /repo worktree remove --force $CW
mkdir -p /verif/seeded/$NAME
cp $S/patch.diff $S/zz_seed_demo_test.go $S/notes.md /verif/seeded/$NAME/ 2>/dev/null
echo "$LOC" > /verif/seeded/$NAME/demo_location.txt
if [ "${PHASE:-all}" = "confirm" ]; then
  echo "$ORIG $CHG $EX" > /verif/seeded/$NAME/.confirm
  echo "confirm-only done"; exit 0
fi
echo "== property check against the change"
git -C /repo apply $S/patch.diff || { echo "cannot apply to /repo"; exit 2; }
/verif/bin/gosmt run -prop $P -no-evidence 2>&1 | grep -v "^\s\|^=== \|^--- \|^PASS\|^ok \|^FAIL\|^$" | tail -6; RC=${PIPESTATUS[0]}
git -C /repo checkout -- .
echo "check_exit=$RC"
python3 - "$P" "$NAME" "$ORIG" "$CHG" "$EX" "$RC" <<'PY'
import json,sys
p,name,orig,chg,ex,rc=sys.argv[1:]
json.dump({"property":p,"seed":name,"demo_on_original_exit":int(orig),"demo_with_change_exit":int(chg),"existing_tests_exit":int(ex),"quick_check_exit":int(rc),
 "detected": int(rc)==1, "confirmed": int(orig)==0 and int(chg)!=0 and int(ex)==0,
 "ran":["go test -run TestSeedDemo on pristine worktree and with patch applied","go test of the touched packages with the patch","/verif/bin/gosmt run -prop %s (quick) with the patch applied to /repo, then git checkout"%p]},
 open(f"/verif/seeded/{name}/meta.json","w"),indent=1)
PY
