#!/usr/bin/env python3
"""Generate /verif/MANIFEST.json from harness/*/spec.json and not_applicable.json."""
import json, glob, os
root = '/verif'
props = [json.loads(l)['id'] for l in open(os.path.join(root, 'properties.jsonl'))]
na = json.load(open(os.path.join(root, 'not_applicable.json')))
checks = []
claimed = set()
for sp in sorted(glob.glob(os.path.join(root, 'harness', 'C*', 'spec.json'))):
    s = json.load(open(sp))
    pid = s['property']
    if s.get('disabled'):
        continue
    claimed.add(pid)
    bounds = '; '.join(f"{k}: {v}" for k, v in (s.get('bounds') or {}).items())
    outside = '; '.join(s.get('outside') or [])
    def tierp(t):
        d = dict((s.get('quick') or {}).get('params') or {})
        if t == 'thorough':
            d.update((s.get('thorough') or {}).get('params') or {})
        return ', '.join(f"{k}={v}" for k, v in sorted(d.items())) or 'none'
    bounds += '; harness parameters quick: ' + tierp('quick') + '; thorough: ' + tierp('thorough')
    checks.append({
        'property_id': pid,
        'quick_cmd': f'/verif/check {pid} quick',
        'thorough_cmd': f'/verif/check {pid} thorough',
        'evidence_file': f'/verif/evidence/{pid}.json',
        'replay_cmd_template': '/verif/check --replay {path}',
        'engine': 'gosmt',
        'level_claimed': {
            'category': 'other',
            'text': 'Bounded symbolic execution of the real go/ssa of the anchored functions with an SMT solver deciding every path condition and assertion: holds for every input inside the stated bounds, says nothing outside them. ' + s.get('explanation', ''),
            'design_ref': s.get('design_ref', 'DESIGN.md section 5, ' + pid),
        },
        'level_note': 'Bounds: ' + bounds + '. Outside the claim: ' + outside + '. Assumptions/stubs: ' + '; '.join(s.get('assumptions') or ['none']) + '. Trusted: go/packages+go/ssa, the gosmt executor and its intrinsics (sync, atomic, errors, fmt call-outs), z3 4.8.12, the harness oracle.',
        'technique': 'solver-based checking of the real code: go/ssa symbolic execution -> SMT-LIB2 (bit-vectors), z3 -in; counterexamples replayed natively with go test -overlay',
    })
nalist = []
for pid in props:
    if pid in claimed:
        continue
    reason = na.get(pid, 'no check registered yet for this property (work in progress); not claimed')
    nalist.append({'property_id': pid, 'reason': reason})
baseline = json.load(open('/root/.vp/BASELINE.json'))
m = {
    'version': 1,
    'setup_cmd': 'cd /verif/engine && GOFLAGS=-mod=mod GOPROXY=off go build -o /verif/bin/gosmt . && /verif/bin/gosmt selftest',
    'hooks': {
        'guard': 'verif',
        'enable': 'go build tag "verif"; harness sources live in /verif/harness and are injected with go/packages Overlay and go test -overlay, nothing is added to /repo',
        'baseline_off_cmd': baseline['cmd'],
        'source_commits': [],
        'add_only': True,
    },
    'engines': [{'name': 'gosmt', 'path': '/verif/engine', 'serves_properties': sorted(claimed),
                 'kind_free_text': 'go/ssa symbolic executor written for this task; SMT-LIB2 to z3 over a pipe; native counterexample replay'}],
    'checks': checks,
    'not_applicable': nalist,
    'notes': 'Exit codes of every check: 0 = all obligations discharged on every explored path (KNOWN-FINDING lines allowed); 1 = VIOLATION (counterexample reproduced natively); 3 = INCONCLUSIVE (unsupported path, solver unknown, unwinding bound hit, harness does not type-check) - never reported as success.',
}
json.dump(m, open(os.path.join(root, 'MANIFEST.json'), 'w'), indent=1)
print('checks:', len(checks), 'not_applicable:', len(nalist))
