//go:build verif

package webrtc

import (
	verif "github.com/pion/webrtc/v4/internal/zzverif"
)

// Each function: for every defined value v of the enum type, decoding its
// string / text / JSON encoding yields v again.

func VerifC38BundlePolicy() {
	v := BundlePolicy(verif.IntRange("v", int(BundlePolicyBalanced), int(BundlePolicyMaxBundle)))
	verif.Key("BundlePolicy-string-roundtrip", "v", int(v))
	verif.Assert(newBundlePolicy(v.String()) == v, "BundlePolicy-string-roundtrip")
	js, jerr := v.MarshalJSON()
	var fromJSON BundlePolicy
	juerr := fromJSON.UnmarshalJSON(js)
	verif.Key("BundlePolicy-json-roundtrip", "v", int(v))
	verif.Assert(jerr == nil && juerr == nil && fromJSON == v, "BundlePolicy-json-roundtrip")
	verif.Reach("BundlePolicy-end")
}

func VerifC38DataChannelState() {
	v := DataChannelState(verif.IntRange("v", int(DataChannelStateConnecting), int(DataChannelStateClosed)))
	verif.Key("DataChannelState-string-roundtrip", "v", int(v))
	verif.Assert(newDataChannelState(v.String()) == v, "DataChannelState-string-roundtrip")
	txt, terr := v.MarshalText()
	var fromText DataChannelState
	uerr := fromText.UnmarshalText(txt)
	verif.Key("DataChannelState-text-roundtrip", "v", int(v))
	verif.Assert(terr == nil && uerr == nil && fromText == v, "DataChannelState-text-roundtrip")
	verif.Reach("DataChannelState-end")
}

func VerifC38DTLSTransportState() {
	v := DTLSTransportState(verif.IntRange("v", int(DTLSTransportStateNew), int(DTLSTransportStateFailed)))
	verif.Key("DTLSTransportState-string-roundtrip", "v", int(v))
	verif.Assert(newDTLSTransportState(v.String()) == v, "DTLSTransportState-string-roundtrip")
	txt, terr := v.MarshalText()
	var fromText DTLSTransportState
	uerr := fromText.UnmarshalText(txt)
	verif.Key("DTLSTransportState-text-roundtrip", "v", int(v))
	verif.Assert(terr == nil && uerr == nil && fromText == v, "DTLSTransportState-text-roundtrip")
	verif.Reach("DTLSTransportState-end")
}

func VerifC38ICECandidateType() {
	v := ICECandidateType(verif.IntRange("v", int(ICECandidateTypeHost), int(ICECandidateTypeRelay)))
	verif.Key("ICECandidateType-string-roundtrip", "v", int(v))
	back, err := NewICECandidateType(v.String())
	verif.Assert(err == nil && back == v, "ICECandidateType-string-roundtrip")
	txt, terr := v.MarshalText()
	var fromText ICECandidateType
	uerr := fromText.UnmarshalText(txt)
	verif.Key("ICECandidateType-text-roundtrip", "v", int(v))
	verif.Assert(terr == nil && uerr == nil && fromText == v, "ICECandidateType-text-roundtrip")
	verif.Reach("ICECandidateType-end")
}

func VerifC38ICEComponent() {
	v := ICEComponent(verif.IntRange("v", int(ICEComponentRTP), int(ICEComponentRTCP)))
	verif.Key("ICEComponent-string-roundtrip", "v", int(v))
	verif.Assert(newICEComponent(v.String()) == v, "ICEComponent-string-roundtrip")
	verif.Reach("ICEComponent-end")
}

func VerifC38ICEConnectionState() {
	v := ICEConnectionState(verif.IntRange("v", int(ICEConnectionStateNew), int(ICEConnectionStateClosed)))
	verif.Key("ICEConnectionState-string-roundtrip", "v", int(v))
	verif.Assert(NewICEConnectionState(v.String()) == v, "ICEConnectionState-string-roundtrip")
	verif.Reach("ICEConnectionState-end")
}

func VerifC38ICECredentialType() {
	v := ICECredentialType(verif.IntRange("v", int(ICECredentialTypePassword), int(ICECredentialTypeOauth)))
	verif.Key("ICECredentialType-string-roundtrip", "v", int(v))
	back, err := newICECredentialType(v.String())
	verif.Assert(err == nil && back == v, "ICECredentialType-string-roundtrip")
	js, jerr := v.MarshalJSON()
	var fromJSON ICECredentialType
	juerr := fromJSON.UnmarshalJSON(js)
	verif.Key("ICECredentialType-json-roundtrip", "v", int(v))
	verif.Assert(jerr == nil && juerr == nil && fromJSON == v, "ICECredentialType-json-roundtrip")
	verif.Reach("ICECredentialType-end")
}

func VerifC38ICEGatheringState() {
	v := ICEGatheringState(verif.IntRange("v", int(ICEGatheringStateNew), int(ICEGatheringStateComplete)))
	verif.Key("ICEGatheringState-string-roundtrip", "v", int(v))
	verif.Assert(NewICEGatheringState(v.String()) == v, "ICEGatheringState-string-roundtrip")
	verif.Reach("ICEGatheringState-end")
}

func VerifC38ICEProtocol() {
	v := ICEProtocol(verif.IntRange("v", int(ICEProtocolUDP), int(ICEProtocolTCP)))
	verif.Key("ICEProtocol-string-roundtrip", "v", int(v))
	back, err := NewICEProtocol(v.String())
	verif.Assert(err == nil && back == v, "ICEProtocol-string-roundtrip")
	verif.Reach("ICEProtocol-end")
}

func VerifC38ICERole() {
	v := ICERole(verif.IntRange("v", int(ICERoleControlling), int(ICERoleControlled)))
	verif.Key("ICERole-string-roundtrip", "v", int(v))
	verif.Assert(newICERole(v.String()) == v, "ICERole-string-roundtrip")
	txt, terr := v.MarshalText()
	var fromText ICERole
	uerr := fromText.UnmarshalText(txt)
	verif.Key("ICERole-text-roundtrip", "v", int(v))
	verif.Assert(terr == nil && uerr == nil && fromText == v, "ICERole-text-roundtrip")
	verif.Reach("ICERole-end")
}

func VerifC38ICETransportPolicy() {
	v := ICETransportPolicy(verif.IntRange("v", int(ICETransportPolicyAll), int(ICETransportPolicyNoHost)))
	verif.Key("ICETransportPolicy-string-roundtrip", "v", int(v))
	verif.Assert(NewICETransportPolicy(v.String()) == v, "ICETransportPolicy-string-roundtrip")
	js, jerr := v.MarshalJSON()
	var fromJSON ICETransportPolicy
	juerr := fromJSON.UnmarshalJSON(js)
	verif.Key("ICETransportPolicy-json-roundtrip", "v", int(v))
	verif.Assert(jerr == nil && juerr == nil && fromJSON == v, "ICETransportPolicy-json-roundtrip")
	verif.Reach("ICETransportPolicy-end")
}

func VerifC38ICETransportState() {
	v := ICETransportState(verif.IntRange("v", int(ICETransportStateNew), int(ICETransportStateClosed)))
	verif.Key("ICETransportState-string-roundtrip", "v", int(v))
	verif.Assert(newICETransportState(v.String()) == v, "ICETransportState-string-roundtrip")
	txt, terr := v.MarshalText()
	var fromText ICETransportState
	uerr := fromText.UnmarshalText(txt)
	verif.Key("ICETransportState-text-roundtrip", "v", int(v))
	verif.Assert(terr == nil && uerr == nil && fromText == v, "ICETransportState-text-roundtrip")
	verif.Reach("ICETransportState-end")
}

func VerifC38NetworkType() {
	v := NetworkType(verif.IntRange("v", int(NetworkTypeUDP4), int(NetworkTypeTCP6)))
	verif.Key("NetworkType-string-roundtrip", "v", int(v))
	back, err := NewNetworkType(v.String())
	verif.Assert(err == nil && back == v, "NetworkType-string-roundtrip")
	verif.Reach("NetworkType-end")
}

func VerifC38PeerConnectionState() {
	v := PeerConnectionState(verif.IntRange("v", int(PeerConnectionStateNew), int(PeerConnectionStateClosed)))
	verif.Key("PeerConnectionState-string-roundtrip", "v", int(v))
	verif.Assert(newPeerConnectionState(v.String()) == v, "PeerConnectionState-string-roundtrip")
	verif.Reach("PeerConnectionState-end")
}

func VerifC38RTCPMuxPolicy() {
	v := RTCPMuxPolicy(verif.IntRange("v", int(RTCPMuxPolicyNegotiate), int(RTCPMuxPolicyRequire)))
	verif.Key("RTCPMuxPolicy-string-roundtrip", "v", int(v))
	verif.Assert(newRTCPMuxPolicy(v.String()) == v, "RTCPMuxPolicy-string-roundtrip")
	js, jerr := v.MarshalJSON()
	var fromJSON RTCPMuxPolicy
	juerr := fromJSON.UnmarshalJSON(js)
	verif.Key("RTCPMuxPolicy-json-roundtrip", "v", int(v))
	verif.Assert(jerr == nil && juerr == nil && fromJSON == v, "RTCPMuxPolicy-json-roundtrip")
	verif.Reach("RTCPMuxPolicy-end")
}

func VerifC38RTPTransceiverDirection() {
	v := RTPTransceiverDirection(verif.IntRange("v", int(RTPTransceiverDirectionSendrecv), int(RTPTransceiverDirectionInactive)))
	verif.Key("RTPTransceiverDirection-string-roundtrip", "v", int(v))
	verif.Assert(NewRTPTransceiverDirection(v.String()) == v, "RTPTransceiverDirection-string-roundtrip")
	verif.Reach("RTPTransceiverDirection-end")
}

func VerifC38SCTPTransportState() {
	v := SCTPTransportState(verif.IntRange("v", int(SCTPTransportStateConnecting), int(SCTPTransportStateClosed)))
	verif.Key("SCTPTransportState-string-roundtrip", "v", int(v))
	verif.Assert(newSCTPTransportState(v.String()) == v, "SCTPTransportState-string-roundtrip")
	verif.Reach("SCTPTransportState-end")
}

func VerifC38SDPSemantics() {
	v := SDPSemantics(verif.IntRange("v", int(SDPSemanticsUnifiedPlan), int(SDPSemanticsUnifiedPlanWithFallback)))
	verif.Key("SDPSemantics-string-roundtrip", "v", int(v))
	verif.Assert(newSDPSemantics(v.String()) == v, "SDPSemantics-string-roundtrip")
	js, jerr := v.MarshalJSON()
	var fromJSON SDPSemantics
	juerr := fromJSON.UnmarshalJSON(js)
	verif.Key("SDPSemantics-json-roundtrip", "v", int(v))
	verif.Assert(jerr == nil && juerr == nil && fromJSON == v, "SDPSemantics-json-roundtrip")
	verif.Reach("SDPSemantics-end")
}

func VerifC38SDPType() {
	v := SDPType(verif.IntRange("v", int(SDPTypeOffer), int(SDPTypeRollback)))
	verif.Key("SDPType-string-roundtrip", "v", int(v))
	verif.Assert(NewSDPType(v.String()) == v, "SDPType-string-roundtrip")
	js, jerr := v.MarshalJSON()
	var fromJSON SDPType
	juerr := fromJSON.UnmarshalJSON(js)
	verif.Key("SDPType-json-roundtrip", "v", int(v))
	verif.Assert(jerr == nil && juerr == nil && fromJSON == v, "SDPType-json-roundtrip")
	verif.Reach("SDPType-end")
}

func VerifC38SignalingState() {
	v := SignalingState(verif.IntRange("v", int(SignalingStateStable), int(SignalingStateClosed)))
	verif.Key("SignalingState-string-roundtrip", "v", int(v))
	verif.Assert(newSignalingState(v.String()) == v, "SignalingState-string-roundtrip")
	verif.Reach("SignalingState-end")
}

func VerifC38RTPCodecType() {
	v := RTPCodecType(verif.IntRange("v", int(RTPCodecTypeAudio), int(RTPCodecTypeVideo)))
	verif.Key("RTPCodecType-string-roundtrip", "v", int(v))
	verif.Assert(NewRTPCodecType(v.String()) == v, "RTPCodecType-string-roundtrip")
	verif.Reach("RTPCodecType-end")
}
