//go:build verif

package webrtc

// VerifC12 drives the shared negotiation scenarios (harness/lib/sdpdriver.go.txt)
// and asserts the conditions of property C12 on every description produced.
func VerifC12() { verifSDPDriver(checkC12) }
