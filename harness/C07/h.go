//go:build verif

package webrtc

// VerifC07 drives the shared negotiation scenarios (harness/lib/sdpdriver.go.txt)
// and asserts the conditions of property C07 on every description produced.
func VerifC07() { verifSDPDriver(checkC07) }
