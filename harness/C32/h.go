//go:build verif

package ivfwriter

import (
	"errors"
	"io"

	"github.com/pion/rtp"
	"github.com/pion/rtp/codecs"
	"github.com/pion/webrtc/v4/pkg/media/ivfreader"
	verif "github.com/pion/webrtc/v4/internal/zzverif"
)

// verifFile is an in-memory io.WriteSeeker (seekable sink) / io.Writer.
type verifFile struct {
	data []byte
	pos  int
}

func (f *verifFile) Write(p []byte) (int, error) {
	for len(f.data) < f.pos+len(p) {
		f.data = append(f.data, 0)
	}
	copy(f.data[f.pos:], p)
	f.pos += len(p)
	return len(p), nil
}

func (f *verifFile) Seek(off int64, whence int) (int64, error) {
	if whence != 0 || off < 0 || int(off) > len(f.data) {
		return 0, errors.New("verifFile: unsupported seek")
	}
	f.pos = int(off)
	return off, nil
}

// verifPipe is a non-seekable sink.
type verifPipe struct{ data []byte }

func (f *verifPipe) Write(p []byte) (int, error) {
	f.data = append(f.data, p...)
	return len(p), nil
}

type verifSrc struct {
	data []byte
	pos  int
}

func (s *verifSrc) Read(p []byte) (int, error) {
	if s.pos >= len(s.data) {
		return 0, io.EOF
	}
	n := copy(p, s.data[s.pos:])
	s.pos += n
	return n, nil
}

type verifFrame struct {
	data []byte
	pts  uint64
}

// VerifC32RoundTrip: what IVFWriter wrote for a VP8/VP9 RTP stream reads back
// through IVFReader as exactly the frames the stream defines: same bytes, same
// order, header fields as configured, frame count patched on a seekable sink,
// reader timestamps equal to the PTS arithmetic of the format.
func VerifC32RoundTrip() {
	vp9 := verif.Bool("vp9")
	direct := verif.Bool("direct_pts")
	seekable := verif.Bool("seekable")
	width, height := verif.U16("width"), verif.U16("height")
	// timebase: default 30/1 or 1/90000 (concrete pairs; symbolic/symbolic division is outside the claim)
	num, den := uint32(1), uint32(30)
	if verif.Bool("tb90k") {
		num, den = 1, 90000
	}
	opts := []Option{WithWidthAndHeight(width, height), WithFrameRate(num, den)}
	fourcc := "VP80"
	if vp9 {
		opts = append(opts, WithCodec(mimeTypeVP9))
		fourcc = "VP90"
	}
	if direct {
		opts = append(opts, WithDirectPTS())
	}
	file := &verifFile{}
	pipe := &verifPipe{}
	var out io.Writer = pipe
	if seekable {
		out = file
	}
	w, err := NewWith(out, opts...)
	verif.Assert(err == nil, "writer-open")

	// reference assembly, written from the property statement
	var want []verifFrame
	var cur []byte
	seenKey := false
	first := uint32(0)
	haveFirst := false
	npk := verif.Param("packets", 2)
	maxPay := verif.Param("max_payload", 4)
	for i := 0; i < npk; i++ {
		n := 1 + verif.Choice("paylen", maxPay)
		pay := verif.Bytes("pay", n)
		ts := verif.U32("ts")
		marker := verif.Bool("marker")
		pkt := &rtp.Packet{Header: rtp.Header{Version: 2, Timestamp: ts, Marker: marker, SequenceNumber: uint16(i)}, Payload: pay}
		werr := w.WriteRTP(pkt)

		// depacketize with the dependency's depacketizer (trusted, outside the claim)
		var body []byte
		var start, key bool
		var derr error
		if vp9 {
			p := codecs.VP9Packet{}
			_, derr = p.Unmarshal(append([]byte{}, pay...))
			body, start, key = p.Payload, p.B, !p.P
		} else {
			p := codecs.VP8Packet{}
			_, derr = p.Unmarshal(append([]byte{}, pay...))
			if derr == nil && len(p.Payload) == 0 {
				// descriptor-only packet: contributes nothing, must not be an error
				verif.Assert(werr == nil, "descriptor-only-packet-ignored")
				continue
			}
			if derr == nil {
				body, start, key = p.Payload, p.S == 1, p.Payload[0]&1 == 0
			}
		}
		if derr != nil {
			verif.Assert(werr != nil, "undecodable-packet-rejected")
			continue
		}
		verif.Assert(werr == nil, "write-ok")
		if len(want) == 0 {
			// the writer measures time from the last packet seen before its first frame is complete
			first, haveFirst = ts, true
		}
		if !seenKey && !key {
			continue
		}
		if cur == nil && !start {
			continue
		}
		seenKey = true
		cur = append(cur, body...)
		if !marker || len(cur) == 0 {
			continue
		}
		var pts uint64
		if direct {
			pts = uint64(ts - first)
		} else {
			pts = (1000 * uint64(ts-first) / 90000) * uint64(num) / uint64(den)
		}
		want = append(want, verifFrame{data: cur, pts: pts})
		cur = nil
	}
	_ = haveFirst
	verif.Assert(w.Close() == nil, "close-ok")

	data := pipe.data
	if seekable {
		data = file.data
	}
	r, hdr, err := ivfreader.NewWith(&verifSrc{data: data})
	verif.Assert(err == nil, "reader-open")
	if err != nil {
		return
	}
	verif.Assert(hdr.FourCC == fourcc, "fourcc")
	verif.Assert(hdr.Width == width && hdr.Height == height, "dimensions")
	verif.Assert(hdr.TimebaseNumerator == num && hdr.TimebaseDenominator == den, "timebase")
	if seekable {
		verif.Assert(hdr.NumFrames == uint32(len(want)), "frame-count-patched")
	}
	for i := range want {
		got, fh, err := r.ParseNextFrame()
		verif.Assert(err == nil, "frame-present")
		if err != nil {
			return
		}
		verif.Assert(len(got) == len(want[i].data), "frame-length")
		if len(got) != len(want[i].data) {
			return
		}
		for j := range got {
			verif.Assert(got[j] == want[i].data[j], "frame-bytes")
		}
		verif.Assert(fh.Timestamp == want[i].pts*uint64(den)/uint64(num), "frame-timestamp")
		verif.Reach("frame-read")
	}
	_, _, err = r.ParseNextFrame()
	verif.Assert(errors.Is(err, io.EOF), "no-extra-frames")
	verif.Reach("roundtrip-end")
}
