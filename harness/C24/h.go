//go:build verif

package webrtc

import (
	"sync"

	"github.com/pion/ice/v4"
	verif "github.com/pion/webrtc/v4/internal/zzverif"
)

// The ICE agent is replaced by its callback contract: createAgent installs an
// inert agent, OnCandidate hands the gatherer's callback to the harness, and the
// harness plays the agent's gathering goroutine (candidates one after another,
// then the nil end-of-candidates call).
var (
	verifC24Callback func(ice.Candidate)
	verifC24Ready    chan struct{}
)

func verifC24CreateAgent(g *ICEGatherer) error {
	g.lock.Lock()
	defer g.lock.Unlock()
	if g.agent != nil || g.State() != ICEGathererStateNew {
		return nil
	}
	g.agent = &ice.Agent{}
	return nil
}

func verifC24OnCandidate(a *ice.Agent, f func(ice.Candidate)) error {
	verifC24Callback = f
	close(verifC24Ready)
	return nil
}

func verifC24GatherCandidates(a *ice.Agent) error { return nil }

type verifC24Cand struct {
	ice.Candidate
	id string
}

func (c *verifC24Cand) Type() ice.CandidateType                       { return ice.CandidateTypeHost }
func (c *verifC24Cand) NetworkType() ice.NetworkType                  { return ice.NetworkTypeUDP4 }
func (c *verifC24Cand) ID() string                                    { return c.id }
func (c *verifC24Cand) Foundation() string                            { return "f" + c.id }
func (c *verifC24Cand) Priority() uint32                              { return 100 }
func (c *verifC24Cand) Address() string                               { return "192.0.2.1" }
func (c *verifC24Cand) Port() int                                     { return 4000 }
func (c *verifC24Cand) Component() uint16                             { return 1 }
func (c *verifC24Cand) TCPType() ice.TCPType                          { return ice.TCPTypeUnspecified }
func (c *verifC24Cand) Extensions() []ice.CandidateExtension          { return nil }
func (c *verifC24Cand) RelatedAddress() *ice.CandidateRelatedAddress  { return nil }

// VerifC24: candidate pool size 0 or 1; the agent's gathering goroutine reports
// 0..max_candidates candidates and then nil, while SetLocalDescription (which
// flushes the pool and, without a pool, starts gathering) runs concurrently.
func VerifC24() {
	if !verif.Symbolic() {
		return // the agent contract is only replaceable under the executor
	}
	verif.Preemptible(false)
	verifC24Callback = nil
	verifC24Ready = make(chan struct{})
	pool := verif.Choice("pool_size", 2)
	pc := verifNewPC(SettingEngine{}, Configuration{ICECandidatePoolSize: uint8(pool)})

	var mu sync.Mutex
	var events []string
	pc.OnICECandidate(func(c *ICECandidate) {
		mu.Lock()
		if c == nil {
			events = append(events, "nil")
		} else {
			events = append(events, c.Foundation)
		}
		mu.Unlock()
	})
	_, err := pc.CreateDataChannel("dc", nil)
	verif.Assert(err == nil, "setup")
	offer, err := pc.CreateOffer(nil)
	verif.Assert(err == nil, "setup")

	ncand := verif.Choice("candidates", verif.Param("max_candidates", 2)+1)
	// how many candidates the agent has already reported before SetLocalDescription starts
	early := 0
	if pool == 1 {
		early = verif.Choice("reported_before", ncand+2)
	}
	report := func(i int) {
		if i < ncand {
			verifC24Callback(&verifC24Cand{id: string(rune('a' + i))})
		} else {
			verifC24Callback(nil)
		}
	}
	for i := 0; i < early; i++ {
		report(i)
	}

	verif.Preemptible(true)
	var wg sync.WaitGroup
	wg.Add(1)
	go func() {
		defer wg.Done()
		<-verifC24Ready
		for i := early; i <= ncand; i++ {
			report(i)
		}
	}()
	verif.Assert(pc.SetLocalDescription(offer) == nil, "setup")
	wg.Wait()
	verif.Preemptible(false)
	verif.Settle()

	mu.Lock()
	nils := 0
	for i, e := range events {
		if e == "nil" {
			nils++
			verif.KeyBool("no-candidate-after-end-of-gathering", "pool", pool == 1)
			verif.Assert(i == len(events)-1 || events[i+1] == "nil", "no-candidate-after-end-of-gathering")
		}
	}
	verif.KeyBool("end-of-gathering-exactly-once", "pool", pool == 1)
	verif.Key("end-of-gathering-exactly-once", "count", nils)
	verif.Assert(nils == 1, "end-of-gathering-exactly-once")
	for i := 0; i < ncand; i++ {
		n := 0
		for _, e := range events {
			if e == "f"+string(rune('a'+i)) {
				n++
			}
		}
		verif.KeyBool("each-candidate-exactly-once", "pool", pool == 1)
		verif.Assert(n == 1, "each-candidate-exactly-once")
	}
	mu.Unlock()
	verif.Reach("done")
}
