//go:build verif

package ivfreader

import (
	"io"

	verif "github.com/pion/webrtc/v4/internal/zzverif"
)

type verifSrc struct {
	data  []byte
	pos   int
	chunk int
}

func (s *verifSrc) Read(p []byte) (int, error) {
	if s.pos >= len(s.data) {
		return 0, io.EOF
	}
	n := len(p)
	if n > s.chunk {
		n = s.chunk
	}
	if n > len(s.data)-s.pos {
		n = len(s.data) - s.pos
	}
	copy(p, s.data[s.pos:s.pos+n])
	s.pos += n
	return n, nil
}

// verifInput: an arbitrary byte stream of arbitrary length 0..max delivered in
// chunks of arbitrary size.
func verifInput(max int) *verifSrc {
	n := verif.Choice("total", max+1)
	chunk := 1 + verif.Choice("chunk", verif.Param("max_chunk", 2))
	if chunk == verif.Param("max_chunk", 2) {
		chunk = 1 << 20
	}
	return &verifSrc{data: verif.Bytes("in", n), chunk: chunk}
}


// VerifC37IVF: NewWith/ParseNextFrame on arbitrary bytes never panic and every
// successful call consumes input.
func VerifC37IVF() {
	// a valid signature/version prefix is forced half of the time so that frame parsing is reached
	src := verifInput(verif.Param("ivf_max", 46))
	if verif.Bool("force_magic") && len(src.data) >= 8 {
		copy(src.data, []byte{'D', 'K', 'I', 'F', 0, 0})
	}
	r, hdr, err := NewWith(src)
	if err != nil {
		verif.Assert(r == nil && hdr == nil, "ivf-error-means-no-reader")
		verif.Reach("ivf-header-rejected")
		return
	}
	verif.Assert(src.pos >= ivfFileHeaderSize, "ivf-header-consumed")
	calls := len(src.data) + 2
	for i := 0; i < calls; i++ {
		before := src.pos
		payload, fh, err := r.ParseNextFrame()
		if err != nil {
			verif.Assert(payload == nil && fh == nil, "ivf-error-means-no-frame")
			verif.Reach("ivf-frame-error")
			return
		}
		verif.Reach("ivf-frame-ok")
		verif.Assert(src.pos > before, "ivf-progress")
		verif.Assert(len(payload) == int(fh.FrameSize), "ivf-frame-size")
	}
	verif.Assert(false, "ivf-terminates")
}
