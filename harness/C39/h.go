//go:build verif

package webrtc

import (
	"crypto/ecdsa"
	"crypto/elliptic"
	"crypto/rand"
	"errors"
	"sync/atomic"

	"github.com/pion/webrtc/v4/pkg/rtcerr"
	verif "github.com/pion/webrtc/v4/internal/zzverif"
)

type verifC39Logger struct{}

func (verifC39Logger) Trace(string)                  {}
func (verifC39Logger) Tracef(string, ...interface{}) {}
func (verifC39Logger) Debug(string)                  {}
func (verifC39Logger) Debugf(string, ...interface{}) {}
func (verifC39Logger) Info(string)                   {}
func (verifC39Logger) Infof(string, ...interface{})  {}
func (verifC39Logger) Warn(string)                   {}
func (verifC39Logger) Warnf(string, ...interface{})  {}
func (verifC39Logger) Error(string)                  {}
func (verifC39Logger) Errorf(string, ...interface{}) {}

var verifNativeKeys [3]*ecdsa.PrivateKey

// verifCert returns certificate number tag. Under the executor certificates are
// told apart by a tag and Certificate.Equals is replaced by verifCertEquals; in a
// native replay real ECDSA keys are generated so that the real Equals agrees.
func verifCert(tag int) Certificate {
	id := string(rune('A' + tag))
	if verif.Symbolic() {
		return Certificate{statsID: id}
	}
	if verifNativeKeys[tag] == nil {
		k, err := ecdsa.GenerateKey(elliptic.P256(), rand.Reader)
		if err != nil {
			panic(err)
		}
		verifNativeKeys[tag] = k
	}
	return Certificate{privateKey: verifNativeKeys[tag], statsID: id}
}

func verifCertEquals(c Certificate, o Certificate) bool { return c.statsID == o.statsID }

var verifURLs = [...]string{"stun:stun.example.org:3478", "turn:turn.example.org:3478", "turns:turn.example.org:5349?transport=tcp", "http://not-an-ice-server"}

func verifServer(tag string) ICEServer {
	s := ICEServer{URLs: []string{verifURLs[verif.Choice(tag+"_url", len(verifURLs))]}}
	if verif.Bool(tag + "_has_user") {
		s.Username = "user"
	}
	switch verif.Choice(tag+"_cred", 3) {
	case 1:
		s.Credential = "secret"
	case 2:
		s.Credential = OAuthCredential{MACKey: "k", AccessToken: "t"}
	}
	s.CredentialType = ICECredentialType(verif.Choice(tag+"_credtype", 2))
	return s
}

// verifPick is Choice(name, n) when the group is varied and 0 otherwise.
func verifPick(vary bool, name string, n int) int {
	if !vary {
		return 0
	}
	return verif.Choice(name, n)
}

func verifConfigEqual(a, b Configuration) bool {
	if a.PeerIdentity != b.PeerIdentity || a.BundlePolicy != b.BundlePolicy || a.RTCPMuxPolicy != b.RTCPMuxPolicy ||
		a.ICETransportPolicy != b.ICETransportPolicy || a.ICECandidatePoolSize != b.ICECandidatePoolSize ||
		a.AlwaysNegotiateDataChannels != b.AlwaysNegotiateDataChannels ||
		len(a.Certificates) != len(b.Certificates) || len(a.ICEServers) != len(b.ICEServers) {
		return false
	}
	for i := range a.Certificates {
		if a.Certificates[i].statsID != b.Certificates[i].statsID {
			return false
		}
	}
	for i := range a.ICEServers {
		if len(a.ICEServers[i].URLs) != len(b.ICEServers[i].URLs) || a.ICEServers[i].URLs[0] != b.ICEServers[i].URLs[0] ||
			a.ICEServers[i].Username != b.ICEServers[i].Username {
			return false
		}
	}
	return true
}

// VerifC39: for every current configuration and every requested configuration
// (identity, bundle / mux / transport policies, pool size, 0..2 certificates out
// of three distinct ones, 0..2 ICE servers), closed flag and presence of a local
// description: changing an immutable setting is refused with
// InvalidModificationError, a closed connection with InvalidStateError, and any
// refused call leaves GetConfiguration as it was.
func VerifC39() { verifC39(true, true, true) }

// The quick tier varies one group of settings at a time (identity and policies /
// certificates / ICE servers) with the others left unchanged; the thorough tier
// runs the full product (VerifC39).
func VerifC39Policies() { verifC39(true, false, false) }
func VerifC39Certs()    { verifC39(false, true, false) }
func VerifC39Servers()  { verifC39(false, false, true) }

func verifC39(varyIdentity, varyCerts, varyServers bool) {
	ids := [...]string{"", "alice", "bob"}
	cur := Configuration{
		PeerIdentity:         ids[verifPick(varyIdentity, "cur_identity", 3)],
		BundlePolicy:         BundlePolicy(verif.IntRange("cur_bundle", int(BundlePolicyBalanced), int(BundlePolicyMaxBundle))),
		RTCPMuxPolicy:        RTCPMuxPolicy(verif.IntRange("cur_mux", int(RTCPMuxPolicyNegotiate), int(RTCPMuxPolicyRequire))),
		ICETransportPolicy:   ICETransportPolicy(verif.IntRange("cur_transport", 0, 2)),
		ICECandidatePoolSize: uint8(verif.IntRange("cur_pool", 0, 2)),
	}
	ncur := verifPick(varyCerts, "cur_ncerts", 3)
	for i := 0; i < ncur; i++ {
		cur.Certificates = append(cur.Certificates, verifCert(i))
	}
	next := Configuration{
		PeerIdentity:         ids[verifPick(varyIdentity, "new_identity", 3)],
		BundlePolicy:         BundlePolicy(verif.IntRange("new_bundle", 0, int(BundlePolicyMaxBundle))),
		RTCPMuxPolicy:        RTCPMuxPolicy(verif.IntRange("new_mux", 0, int(RTCPMuxPolicyRequire))),
		ICETransportPolicy:   ICETransportPolicy(verif.IntRange("new_transport", 0, 2)),
		ICECandidatePoolSize: uint8(verif.IntRange("new_pool", 0, 2)),
	}
	nnew := verifPick(varyCerts, "new_ncerts", 3)
	for i := 0; i < nnew; i++ {
		next.Certificates = append(next.Certificates, verifCert(verif.Choice("new_cert", 3)))
	}
	nsrv := verifPick(varyServers, "new_nservers", verif.Param("max_servers", 1)+1)
	for i := 0; i < nsrv; i++ {
		next.ICEServers = append(next.ICEServers, verifServer("srv"))
	}
	closed := verif.Bool("closed")
	hasLocal := verif.Bool("has_local_description")

	pc := &PeerConnection{isClosed: &atomic.Bool{}, log: verifC39Logger{}, configuration: cur}
	pc.isClosed.Store(closed)
	if hasLocal {
		pc.currentLocalDescription = &SessionDescription{Type: SDPTypeOffer, SDP: "v=0"}
	}
	before := pc.GetConfiguration()
	beforeCerts := append([]Certificate{}, before.Certificates...)
	before.Certificates = beforeCerts

	err := pc.SetConfiguration(next)

	var modErr *rtcerr.InvalidModificationError
	var stateErr *rtcerr.InvalidStateError
	if closed {
		verif.Assert(errors.As(err, &stateErr), "closed-gives-invalid-state-error")
	}
	// which immutable settings does the request try to change?
	changesIdentity := next.PeerIdentity != "" && next.PeerIdentity != cur.PeerIdentity
	changesBundle := next.BundlePolicy != BundlePolicyUnknown && next.BundlePolicy != cur.BundlePolicy
	changesMux := next.RTCPMuxPolicy != RTCPMuxPolicyUnknown && next.RTCPMuxPolicy != cur.RTCPMuxPolicy
	changesPool := next.ICECandidatePoolSize != 0 && next.ICECandidatePoolSize != cur.ICECandidatePoolSize && hasLocal
	changesCerts := false
	if len(next.Certificates) > 0 {
		if len(next.Certificates) != len(cur.Certificates) {
			changesCerts = true
		} else {
			for i := range next.Certificates {
				if next.Certificates[i].statsID != cur.Certificates[i].statsID {
					changesCerts = true
				}
			}
		}
	}
	if !closed && (changesIdentity || changesBundle || changesMux || changesPool || changesCerts) {
		verif.KeyBool("immutable-change-rejected", "identity", changesIdentity)
		verif.KeyBool("immutable-change-rejected", "bundle", changesBundle)
		verif.KeyBool("immutable-change-rejected", "mux", changesMux)
		verif.KeyBool("immutable-change-rejected", "pool", changesPool)
		verif.KeyBool("immutable-change-rejected", "certs", changesCerts)
		verif.Assert(errors.As(err, &modErr), "immutable-change-rejected")
		verif.Reach("rejected-immutable")
	}
	after := pc.GetConfiguration()
	if err != nil {
		verif.Assert(verifConfigEqual(before, after), "rejected-call-leaves-configuration")
		verif.Reach("rejected")
	} else {
		// accepted: the immutable settings still have their old values
		verif.Assert(after.PeerIdentity == cur.PeerIdentity && after.BundlePolicy == cur.BundlePolicy &&
			after.RTCPMuxPolicy == cur.RTCPMuxPolicy && len(after.Certificates) == len(cur.Certificates), "accepted-call-keeps-immutables")
		verif.Reach("accepted")
	}
}
