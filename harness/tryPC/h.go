//go:build verif

package webrtc

import (
	"github.com/pion/interceptor"
	verif "github.com/pion/webrtc/v4/internal/zzverif"
)

func verifLocalParams(g *ICEGatherer) (ICEParameters, error) {
	return ICEParameters{UsernameFragment: "localufrag", Password: "localpasswordlocalpassword", ICELite: false}, nil
}

func verifFingerprints(c Certificate) ([]DTLSFingerprint, error) {
	return []DTLSFingerprint{{Algorithm: "sha-256", Value: "AA:BB:CC:DD"}}, nil
}

func verifLocalCands(g *ICEGatherer) ([]ICECandidate, error) { return nil, nil }

func VerifTryPC() {
	m := &MediaEngine{}
	verif.Assert(m.RegisterDefaultCodecs() == nil, "codecs")
	api := NewAPI(WithMediaEngine(m), WithInterceptorRegistry(&interceptor.Registry{}))
	pc, err := api.NewPeerConnection(Configuration{Certificates: []Certificate{{statsID: "cert"}}})
	verif.Assert(err == nil && pc != nil, "constructed")
	_, err = pc.AddTransceiverFromKind(RTPCodecTypeVideo)
	verif.Assert(err == nil, "transceiver")
	offer, err := pc.CreateOffer(nil)
	verif.Assert(err == nil, "offer")
	verif.ObserveStr("sdp", offer.SDP)
	verif.Reach("done")
}
