//go:build verif

package webrtc

import (
	verif "github.com/pion/webrtc/v4/internal/zzverif"
)

func VerifTryPC() {
	m := &MediaEngine{}
	verif.Assert(m.RegisterDefaultCodecs() == nil, "codecs")
	api := NewAPI(WithMediaEngine(m))
	pc, err := api.NewPeerConnection(Configuration{Certificates: []Certificate{{statsID: "cert"}}})
	verif.Assert(err == nil && pc != nil, "constructed")
	verif.Assert(pc.SignalingState() == SignalingStateStable, "stable")
	verif.Reach("done")
}
