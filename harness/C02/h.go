//go:build verif

package webrtc

// VerifC02: rollback through the public API from every signaling state.
func VerifC02() { verifSignalingDriver(sigC02) }
