//go:build verif

package webrtc

import (
	"sync/atomic"

	verif "github.com/pion/webrtc/v4/internal/zzverif"
)

type verifQueueLog struct {
	accepted    []int // ids in the order tryEnqueue accepted them (recorded under the queue lock)
	ran         []int // ids in the order they ran
	running     bool
	overlap     bool
	closeDone   bool // GracefulClose has returned
	lateAccept  bool // an enqueue that began after GracefulClose returned was accepted
	lateRun     bool // an item ran after GracefulClose had returned
	doneOK      bool // Done returned
	doneMissing bool // Done returned although an earlier accepted item had not run
}

func (l *verifQueueLog) hasRun(id int) bool {
	for _, r := range l.ran {
		if r == id {
			return true
		}
	}
	return false
}

// verifEnqueue is Enqueue with the acceptance made observable: the same
// lock/tryEnqueue/unlock sequence as (*operations).Enqueue.
func verifEnqueue(o *operations, l *verifQueueLog, id int, nested int) {
	startedAfterClose := l.closeDone
	o.mu.Lock()
	ok := o.tryEnqueue(func() {
		if l.running {
			l.overlap = true
		}
		if l.closeDone {
			l.lateRun = true
		}
		l.running = true
		l.ran = append(l.ran, id)
		if nested != 0 {
			verifEnqueue(o, l, nested, 0)
		}
		l.running = false
	})
	if ok {
		l.accepted = append(l.accepted, id)
		if startedAfterClose {
			l.lateAccept = true
		}
	}
	o.mu.Unlock()
}

// VerifC05Queue: enqueuers, an optional Done waiter and an optional GracefulClose
// run concurrently, every interleaving of their lock/channel operations within
// the bounds. Items run one at a time, in acceptance order, each accepted item
// exactly once; Done returns, and only after everything accepted before it has
// run; nothing whose enqueue began after GracefulClose returned is accepted.
func VerifC05Queue() {
	l := &verifQueueLog{}
	o := newOperations(&atomic.Bool{}, func() {})
	// scenarios (at most three user goroutines each):
	//  0: two enqueuers                     -> serial execution, queue order
	//  1: enqueuer (+nested item) and Done  -> Done semantics
	//  2: enqueuer and GracefulClose        -> close semantics
	//  3: enqueuer, Done and GracefulClose  -> termination
	scenario := verif.Choice("scenario", 4)
	n1 := 1 + verif.Choice("n1", verif.Param("max_ops", 2))
	n2 := 0
	nested := false
	withClose := scenario >= 2
	withDone := scenario == 1 || scenario == 3
	switch scenario {
	case 0:
		n2 = 1
	case 1:
		nested = verif.Bool("nested")
	case 3:
		n1 = 1
	}

	go func() { // enqueuer 1
		for i := 0; i < n1; i++ {
			nest := 0
			if nested && i == 0 {
				nest = 30
			}
			verifEnqueue(o, l, 10+i, nest)
		}
	}()
	if n2 > 0 {
		go func() { verifEnqueue(o, l, 20, 0) }()
	}
	if withDone {
		go func() {
			before := append([]int{}, l.accepted...) // accepted before Done was called
			o.Done()
			for _, id := range before {
				if !l.hasRun(id) {
					l.doneMissing = true
				}
			}
			l.doneOK = true
		}()
	}
	if withClose {
		go func() {
			o.GracefulClose()
			l.closeDone = true
		}()
	}
	verif.Settle()

	verif.Assert(!l.overlap, "items-run-one-at-a-time")
	// exactly once, in acceptance order
	verif.KeyBool("accepted-items-run-exactly-once", "with_close", withClose)
	verif.Assert(len(l.ran) == len(l.accepted), "accepted-items-run-exactly-once")
	if len(l.ran) == len(l.accepted) {
		for i := range l.ran {
			verif.Assert(l.ran[i] == l.accepted[i], "run-in-queue-order")
		}
	}
	if withDone {
		verif.KeyBool("done-returns", "with_close", withClose)
		verif.Assert(l.doneOK, "done-returns")
		if !withClose {
			// on a queue that is being closed Done may return at once (its waiter is rejected)
			verif.Assert(!l.doneMissing, "done-waits-for-earlier-items")
		}
	}
	if withClose {
		verif.Assert(l.closeDone, "graceful-close-returns")
		verif.Assert(!l.lateAccept, "nothing-accepted-after-close")
		verif.Assert(!l.lateRun, "nothing-runs-after-close-returned")
		verif.Reach("closed")
	}
	verif.Reach("queue-end")
}
