//go:build verif

package webrtc

// VerifC06 drives the shared negotiation scenarios (harness/lib/sdpdriver.go.txt)
// and asserts the conditions of property C06 on every description produced.
func VerifC06() { verifSDPDriver(checkC06) }
