//go:build verif

package mux

import (
	verif "github.com/pion/webrtc/v4/internal/zzverif"
)

// VerifC27Classify: for every datagram (length 0..max_len, arbitrary bytes) the
// three RFC 7983 classes are mutually exclusive and follow the first-byte ranges.
func VerifC27Classify() {
	n := verif.Choice("len", verif.Param("max_len", 6)+1)
	buf := verif.Bytes("b", n)

	dtls := MatchDTLS(buf)
	srtp := MatchSRTP(buf)
	srtcp := MatchSRTCP(buf)

	verif.Key("exclusive", "len", n)
	verif.Assert(!(dtls && srtp) && !(dtls && srtcp) && !(srtp && srtcp), "exclusive")

	if n == 0 {
		verif.Assert(!dtls && !srtp && !srtcp, "empty-matches-nothing")
		verif.Reach("empty")
		return
	}
	b0 := buf[0]
	verif.Key("dtls-range", "len", n)
	verif.Assert(dtls == (b0 >= 20 && b0 <= 63), "dtls-range")
	// outside [128,191] neither media class may match
	verif.Assert((srtp || srtcp) == (b0 >= 128 && b0 <= 191), "media-range")
	if n >= 4 {
		b1 := buf[1]
		isRtcp := b1 >= 192 && b1 <= 223
		verif.Key("srtcp-second-byte", "len", n)
		verif.Assert(srtcp == (b0 >= 128 && b0 <= 191 && isRtcp), "srtcp-second-byte")
		verif.Assert(srtp == (b0 >= 128 && b0 <= 191 && !isRtcp), "srtp-second-byte")
		verif.Reach("len>=4")
	} else {
		// too short to tell RTP from RTCP: only the first-byte range and exclusivity are demanded
		verif.Reach("len<4")
	}
}
