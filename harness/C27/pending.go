//go:build verif

package mux

import (
	"github.com/pion/logging"
	verif "github.com/pion/webrtc/v4/internal/zzverif"
)

type verifMuxLogger struct{}

func (verifMuxLogger) Trace(string)                  {}
func (verifMuxLogger) Tracef(string, ...interface{}) {}
func (verifMuxLogger) Debug(string)                  {}
func (verifMuxLogger) Debugf(string, ...interface{}) {}
func (verifMuxLogger) Info(string)                   {}
func (verifMuxLogger) Infof(string, ...interface{})  {}
func (verifMuxLogger) Warn(string)                   {}
func (verifMuxLogger) Warnf(string, ...interface{})  {}
func (verifMuxLogger) Error(string)                  {}
func (verifMuxLogger) Errorf(string, ...interface{}) {}

var _ logging.LeveledLogger = verifMuxLogger{}

// VerifC27Pending: datagrams that arrive before their endpoint exists are queued;
// once the endpoint has been created (NewEndpoint returned) a datagram that
// arrives afterwards must be delivered after all the queued ones, whatever the
// scheduling of the work NewEndpoint started. Every matching datagram reaches the
// endpoint exactly once, in arrival order; non-matching ones never do.
func VerifC27Pending() {
	m := &Mux{endpoints: make(map[*Endpoint]MatchFunc), closedCh: make(chan struct{}), log: verifMuxLogger{}, bufferSize: 64}
	nEarly := 1 + verif.Choice("early", verif.Param("max_early", 2))
	tag := byte(1)
	var want []byte
	for i := 0; i < nEarly; i++ {
		// class of the early datagram: SRTP (matches), DTLS or SRTCP (do not match the SRTP endpoint)
		first := [...]byte{128, 20, 128}[verif.Choice("class", 3)]
		second := byte(0)
		if first == 128 && verif.Bool("rtcp") {
			second = 200
		}
		pkt := []byte{first, second, 0, 0, tag}
		if MatchSRTP(pkt) {
			want = append(want, tag)
		}
		verif.Assert(m.dispatch(pkt) == nil, "dispatch-ok")
		tag++
	}
	ep := m.NewEndpoint(MatchSRTP)
	// a datagram arriving after the endpoint was created
	late := []byte{128, 0, 0, 0, tag}
	want = append(want, tag)
	verif.Assert(m.dispatch(late) == nil, "dispatch-ok")
	verif.Settle()

	buf := make([]byte, 16)
	for i, w := range want {
		verif.Assert(ep.buffer.Count() > 0, "every-matching-datagram-delivered")
		if ep.buffer.Count() == 0 {
			return
		}
		n, err := ep.buffer.Read(buf)
		verif.Assert(err == nil && n == 5, "read-ok")
		verif.KeyBool("arrival-order", "late_overtook", buf[4] == tag && i < len(want)-1)
		verif.Assert(buf[4] == w, "arrival-order")
	}
	verif.Assert(ep.buffer.Count() == 0, "nothing-else-delivered")
	verif.Reach("pending-end")
}
