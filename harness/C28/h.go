//go:build verif

package webrtc

import (
	"time"

	"github.com/pion/rtp"
	"github.com/pion/webrtc/v4/pkg/media"
	verif "github.com/pion/webrtc/v4/internal/zzverif"
)

// verifPacketizer records the calls WriteSample makes (the real pion/rtp
// packetizer - same timestamp on every packet of a sample, timestamp advanced by
// the sample count - is dependency code outside the claim).
type verifPacketizer struct {
	events  []int // 1 = SkipSamples, 2 = Packetize, 3 = NextSequenceNumber (shared log)
	skipped []uint32
	ticks   []uint32
	out     []*rtp.Packet
	log     *[]int
}

func (p *verifPacketizer) Packetize(payload []byte, samples uint32) []*rtp.Packet {
	*p.log = append(*p.log, 2)
	p.ticks = append(p.ticks, samples)
	return p.out
}
func (p *verifPacketizer) GeneratePadding(uint32) []*rtp.Packet { return nil }
func (p *verifPacketizer) EnableAbsSendTime(int)                {}
func (p *verifPacketizer) SkipSamples(n uint32) {
	*p.log = append(*p.log, 1)
	p.skipped = append(p.skipped, n)
}

type verifSequencer struct {
	log *[]int
	n   uint16
}

func (s *verifSequencer) NextSequenceNumber() uint16 {
	*s.log = append(*s.log, 3)
	s.n++
	return s.n
}
func (s *verifSequencer) RollOverCount() uint64 { return 0 }

type verifCountWriter struct{ seqs []uint16 }

func (w *verifCountWriter) WriteRTP(h *rtp.Header, payload []byte) (int, error) {
	w.seqs = append(w.seqs, h.SequenceNumber)
	return 0, nil
}
func (w *verifCountWriter) Write(b []byte) (int, error) { return len(b), nil }

// The property is decided in two layers.
//
//   Lemma (VerifC28Lemma): for every float64 x in [0, 2^31), with t = uint32(x)
//   (truncation) and f = float64(t): f <= x < f+1, 0 <= x-f < 1 and f + (x-f) == x
//   exactly. So "tick count = floor" and "fraction carried without loss" hold for
//   whatever total the code truncates, provided the total is in range.
//
//   Instantiation (VerifC28Step / VerifC28Drops): the real WriteSample is executed
//   with symbolic remainder, duration, clock rate and drop count; the tick count
//   handed to the packetizer, the skipped ticks and the stored remainder must be
//   the truncation / fractional part of total = tickF + carried remainder (and of
//   tickF*N + remainder for the dropped packets), and those totals must lie in
//   [0, 2^31). When the implementation computes them with the same operations the
//   comparison is decided syntactically; otherwise the floor/exactness conditions
//   are discharged directly by the solver on that path.

func VerifC28Lemma() {
	x := verif.F64("x")
	verif.Assume(x >= 0)
	verif.Assume(x < 2147483648)
	t := uint32(x)
	f := float64(t)
	r := x - f
	verif.Assert(f <= x, "lemma-floor-below")
	verif.Assert(x < f+1, "lemma-floor-above")
	verif.Assert(r >= 0, "lemma-fraction-nonnegative")
	verif.Assert(r < 1, "lemma-fraction-below-one")
	verif.Assert(f+r == x, "lemma-fraction-exact")
	verif.Reach("lemma-end")
}

func VerifC28Step() { verifC28(0) }

// VerifC28Drops: the same step with 1..max_drops previously dropped packets.
func VerifC28Drops() { verifC28(1) }

// VerifC28Calls: call order and fan-out with 0..3 returned packets (concrete duration).
func VerifC28Calls() { verifC28(2) }

// verifFloorFrac asserts that (ticks, frac) are the truncation and fractional part of total.
func verifFloorFrac(ticks uint32, frac float64, total float64, what string) {
	verif.Assert(total >= 0, what+"-total-nonnegative")
	verif.Assert(total < 2147483648, what+"-total-below-2^31")
	if ticks == uint32(total) && verif.SameF64(frac, total-float64(uint32(total))) {
		// same operations as the lemma's: floor and exact carry follow from VerifC28Lemma
		verif.Reach(what + "-by-lemma")
		return
	}
	// a different computation: decide the conditions themselves
	verif.Assert(float64(ticks) <= total && total < float64(ticks)+1, what+"-is-floor")
	verif.Assert(frac >= 0 && frac < 1, what+"-fraction-in-unit-interval")
	verif.Assert(float64(ticks)+frac == total, what+"-fraction-carried-exactly")
}

func verifC28(mode int) {
	rates := [...]uint32{8000, 48000, 90000}
	rate := rates[verif.Choice("rate", verif.Param("rate_count", len(rates)))]
	var r float64
	var durNs int64
	drops := uint16(0)
	npk := 1
	switch mode {
	case 0, 1:
		r = verif.F64("remainder")
		verif.Assume(r >= 0)
		verif.Assume(r < 1)
		// duration = sec s + nsec ns (every duration up to max_duration_s+1 s)
		if verif.Param("fixed_duration_ns", 0) != 0 {
			// quick tier of the drop case: one duration with a fractional tick count, every remainder
			durNs = int64(verif.Param("fixed_duration_ns", 0))
		} else {
			sec := verif.IntRange("duration_sec", 0, verif.Param("max_duration_s", 10))
			nsec := verif.IntRange("duration_nsec", 0, 999999999)
			durNs = int64(sec)*1000000000 + int64(nsec)
		}
		if mode == 1 {
			drops = uint16(1 + verif.Choice("drops", verif.Param("max_drops", 3)))
		}
	default:
		r = 0.25
		durNs = 20 * 1000000
		drops = uint16(verif.Choice("drops", verif.Param("max_drops", 3)+1))
		npk = verif.Choice("packets", 4)
	}

	var log []int
	pk := &verifPacketizer{log: &log}
	for i := 0; i < npk; i++ {
		pk.out = append(pk.out, &rtp.Packet{Header: rtp.Header{Version: 2, SequenceNumber: uint16(100 + i)}, Payload: []byte{byte(i)}})
	}
	sq := &verifSequencer{log: &log}
	sink := &verifCountWriter{}
	s := &TrackLocalStaticSample{
		packetizer: pk, sequencer: sq, clockRate: float64(rate), remainder: r,
		rtpTrack: &TrackLocalStaticRTP{bindings: []trackBinding{{id: "a", ssrc: 1, payloadType: 96, writeStream: sink}}},
	}
	err := s.WriteSample(media.Sample{Data: []byte{1}, Duration: time.Duration(durNs), PrevDroppedPackets: drops})
	verif.Assert(err == nil, "write-ok")

	// reference totals, from the property statement: duration (s) x clock rate, plus what was carried
	tickF := time.Duration(durNs).Seconds() * float64(rate)
	carry := r
	if drops > 0 {
		dropTotal := tickF*float64(drops) + carry
		verif.Assert(len(pk.skipped) == 1, "skip-called-once")
		if len(pk.skipped) != 1 {
			return
		}
		carry = dropTotal - float64(pk.skipped[0])
		verifFloorFrac(pk.skipped[0], carry, dropTotal, "skip")
	} else {
		verif.Assert(len(pk.skipped) == 0, "no-skip-without-drops")
	}
	total := tickF + carry
	verif.Assert(len(pk.ticks) == 1, "packetize-called-once")
	if len(pk.ticks) != 1 {
		return
	}
	verifFloorFrac(pk.ticks[0], s.remainder, total, "ticks")

	// call order: N sequence numbers skipped, then the skip, then packetize
	want := []int{}
	for i := uint16(0); i < drops; i++ {
		want = append(want, 3)
	}
	if drops > 0 {
		want = append(want, 1)
	}
	want = append(want, 2)
	verif.Assert(len(log) == len(want), "call-count")
	if len(log) == len(want) {
		for i := range want {
			verif.Assert(log[i] == want[i], "call-order")
		}
	}
	// fan-out: every returned packet forwarded once, in order
	verif.Assert(len(sink.seqs) == npk, "packets-forwarded-once")
	if len(sink.seqs) == npk {
		for i := 0; i < npk; i++ {
			verif.Assert(sink.seqs[i] == uint16(100+i), "packets-in-order")
		}
	}
	verif.Reach("step-end")
}
