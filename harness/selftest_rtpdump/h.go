//go:build verif

package rtpdump

import (
	"bufio"
	"io"
	"net"
	"time"

	verif "github.com/pion/webrtc/v4/internal/zzverif"
)

type verifSelfSink struct{ data []byte }

func (s *verifSelfSink) Write(p []byte) (int, error) {
	s.data = append(s.data, p...)
	return len(p), nil
}

type verifSelfSrc struct {
	data  []byte
	pos   int
	chunk int
}

func (s *verifSelfSrc) Read(p []byte) (int, error) {
	if s.pos >= len(s.data) {
		return 0, io.EOF
	}
	n := len(p)
	if n > s.chunk {
		n = s.chunk
	}
	if n > len(s.data)-s.pos {
		n = len(s.data) - s.pos
	}
	copy(p, s.data[s.pos:s.pos+n])
	s.pos += n
	return n, nil
}

func verifSelfB(b bool) uint64 {
	if b {
		return 1
	}
	return 0
}

// VerifSelfRtpdump mirrors the repository's TestRoundTrip on concrete data.
func VerifSelfRtpdump() {
	hdr := Header{Start: time.Unix(9, 0).UTC(), Source: net.IPv4(2, 2, 2, 2), Port: 2222}
	sink := &verifSelfSink{}
	w, err := NewWriter(sink, hdr)
	verif.Observe("werr", verifSelfB(err != nil))
	verif.Observe("wlen", uint64(len(sink.data)))
	verif.ObserveStr("ipstr", hdr.Source.To4().String())
	verif.ObserveStr("pre", string(sink.data[:20]))
	for i, b := range sink.data {
		verif.Observe("wb", uint64(b)+uint64(i)<<8)
	}
	pk := []Packet{
		{Offset: time.Millisecond, IsRTCP: false, Payload: []byte{9}},
		{Offset: 999 * time.Millisecond, IsRTCP: true, Payload: []byte{9, 8, 7}},
		{Offset: 1234567 * time.Millisecond, IsRTCP: false, Payload: []byte{}},
	}
	for _, p := range pk {
		verif.Observe("wp", verifSelfB(w.WritePacket(p) != nil))
	}
	verif.Observe("total", uint64(len(sink.data)))
	br := bufio.NewReader(&verifSelfSrc{data: sink.data, chunk: 5})
	peek, err := br.Peek(10)
	verif.Observe("peekerr", verifSelfB(err != nil))
	verif.Observe("peeklen", uint64(len(peek)))
	for _, chunk := range []int{1, 3, 7, 1 << 20} {
		rd, h2, err := NewReader(&verifSelfSrc{data: sink.data, chunk: chunk})
		verif.Observe("rerr", verifSelfB(err != nil))
		if err != nil {
			verif.ObserveStr("rerrmsg", err.Error())
			continue
		}
		verif.Observe("port", uint64(h2.Port))
		verif.Observe("sec", uint64(h2.Start.Unix()))
		verif.Observe("eq", verifSelfB(h2.Start.Equal(hdr.Start)))
		for {
			p, err := rd.Next()
			if err != nil {
				verif.ObserveStr("end", err.Error())
				break
			}
			verif.Observe("off", uint64(p.Offset))
			verif.Observe("rtcp", verifSelfB(p.IsRTCP))
			verif.Observe("plen", uint64(len(p.Payload)))
			for _, b := range p.Payload {
				verif.Observe("pb", uint64(b))
			}
		}
	}
	// malformed
	var p Packet
	verif.Observe("short", verifSelfB(p.Unmarshal([]byte{0, 3, 0, 0, 0, 0, 0, 0}) != nil))
}
