//go:build verif

package webrtc

// VerifC16 drives the shared negotiation scenarios (harness/lib/sdpdriver.go.txt)
// and asserts the conditions of property C16 on every description produced.
func VerifC16() { verifSDPDriver(checkC16) }
