//go:build verif

package webrtc

// VerifC01API: the JSEP table, description getters and 'stable has no pending'
// through the public API on a real PeerConnection (harness/lib/sigdriver.go.txt).
func VerifC01API() { verifSignalingDriver(sigC01) }
