//go:build verif

package webrtc

import (
	verif "github.com/pion/webrtc/v4/internal/zzverif"
)

// verifJSEPEdge is the JSEP (RFC 8829 §3.2 / W3C 4.3.1) signaling state machine
// written as data: (state, side, type) -> target.
func verifJSEPEdge(cur SignalingState, op stateChangeOp, typ SDPType) (SignalingState, bool) {
	type edge struct {
		cur SignalingState
		op  stateChangeOp
		typ SDPType
		to  SignalingState
	}
	edges := [...]edge{
		{SignalingStateStable, stateChangeOpSetLocal, SDPTypeOffer, SignalingStateHaveLocalOffer},
		{SignalingStateStable, stateChangeOpSetRemote, SDPTypeOffer, SignalingStateHaveRemoteOffer},
		{SignalingStateHaveLocalOffer, stateChangeOpSetRemote, SDPTypeAnswer, SignalingStateStable},
		{SignalingStateHaveLocalOffer, stateChangeOpSetRemote, SDPTypePranswer, SignalingStateHaveRemotePranswer},
		{SignalingStateHaveRemotePranswer, stateChangeOpSetRemote, SDPTypeAnswer, SignalingStateStable},
		{SignalingStateHaveRemoteOffer, stateChangeOpSetLocal, SDPTypeAnswer, SignalingStateStable},
		{SignalingStateHaveRemoteOffer, stateChangeOpSetLocal, SDPTypePranswer, SignalingStateHaveLocalPranswer},
		{SignalingStateHaveLocalPranswer, stateChangeOpSetLocal, SDPTypeAnswer, SignalingStateStable},
		// rollback edges (JSEP 4.1.10.2): local side from have-local-*, remote side from have-remote-*
		{SignalingStateHaveLocalOffer, stateChangeOpSetLocal, SDPTypeRollback, SignalingStateStable},
		{SignalingStateHaveLocalPranswer, stateChangeOpSetLocal, SDPTypeRollback, SignalingStateStable},
		{SignalingStateHaveRemoteOffer, stateChangeOpSetRemote, SDPTypeRollback, SignalingStateStable},
		{SignalingStateHaveRemotePranswer, stateChangeOpSetRemote, SDPTypeRollback, SignalingStateStable},
	}
	for _, e := range edges {
		if e.cur == cur && e.op == op && e.typ == typ {
			return e.to, true
		}
	}
	return cur, false
}

// VerifC01Table: checkNextSignalingState accepts (cur,next,op,type) exactly when
// it is an edge of the JSEP machine with that target, and returns the target;
// otherwise it returns an error and the current state.
func VerifC01Table() {
	cur := SignalingState(verif.IntRange("cur", int(SignalingStateStable), int(SignalingStateClosed)))
	next := SignalingState(verif.IntRange("next", int(SignalingStateStable), int(SignalingStateClosed)))
	op := stateChangeOp(verif.IntRange("op", int(stateChangeOpSetLocal), int(stateChangeOpSetRemote)))
	typ := SDPType(verif.IntRange("type", int(SDPTypeOffer), int(SDPTypeRollback)))

	got, err := checkNextSignalingState(cur, next, op, typ)

	to, isEdge := verifJSEPEdge(cur, op, typ)
	ok := isEdge && to == next
	verif.Key("accept-iff-edge", "cur", int(cur))
	verif.Key("accept-iff-edge", "op", int(op))
	verif.Key("accept-iff-edge", "type", int(typ))
	verif.Key("accept-iff-edge", "next", int(next))
	verif.Assert((err == nil) == ok, "accept-iff-edge")
	if err == nil {
		verif.Assert(got == next, "returns-target")
		verif.Reach("accepted")
	} else {
		verif.Assert(got == cur, "rejected-keeps-state")
		verif.Reach("rejected")
	}
}
