//go:build verif

package webrtc

import (
	"github.com/pion/rtp"
	verif "github.com/pion/webrtc/v4/internal/zzverif"
)

type verifRecorded struct {
	hdr     rtp.Header
	csrc    []uint32
	payload []byte
}

// verifWriter is a TrackLocalWriter that records what it is given.
type verifWriter struct {
	got []verifRecorded
}

func (w *verifWriter) WriteRTP(h *rtp.Header, payload []byte) (int, error) {
	w.got = append(w.got, verifRecorded{hdr: *h, csrc: append([]uint32{}, h.CSRC...), payload: append([]byte{}, payload...)})
	return len(payload), nil
}

func (w *verifWriter) Write(b []byte) (int, error) { return len(b), nil }

func verifPacket() *rtp.Packet {
	ncsrc := verif.Choice("ncsrc", 3)
	var csrc []uint32
	for i := 0; i < ncsrc; i++ {
		csrc = append(csrc, verif.U32("csrc"))
	}
	n := verif.Choice("paylen", verif.Param("max_payload", 3)+1)
	return &rtp.Packet{
		Header: rtp.Header{
			Version: 2, Padding: verif.Bool("padding"), Marker: verif.Bool("marker"),
			PayloadType: verif.U8("pt") & 0x7f, SequenceNumber: verif.U16("seq"), Timestamp: verif.U32("ts"),
			SSRC: verif.U32("ssrc"), CSRC: csrc, PaddingSize: verif.U8("hdr_padsize"),
		},
		Payload:     verif.Bytes("pay", n),
		PaddingSize: verif.U8("pkt_padsize"),
	}
}

func verifSameExceptRewrite(got verifRecorded, p *rtp.Packet, origPadSize uint8) bool {
	h := got.hdr
	ok := h.Version == p.Version && h.Padding == p.Padding && h.Extension == p.Extension && h.Marker == p.Marker &&
		h.SequenceNumber == p.SequenceNumber && h.Timestamp == p.Timestamp && len(got.csrc) == len(p.CSRC) &&
		len(got.payload) == len(p.Payload)
	// the deprecated Packet.PaddingSize is carried into the header when the header has none
	ok = ok && (h.PaddingSize == origPadSize || (origPadSize == 0 && h.PaddingSize == p.PaddingSize))
	if !ok {
		return false
	}
	for i := range p.CSRC {
		if got.csrc[i] != p.CSRC[i] {
			return false
		}
	}
	for i := range p.Payload {
		if got.payload[i] != p.Payload[i] {
			return false
		}
	}
	return true
}

// VerifC29FanOut: from an arbitrary binding list (0..3 bindings with arbitrary
// SSRCs and payload types) one WriteRTP delivers the packet exactly once to every
// binding, rewritten with that binding's SSRC and payload type and otherwise
// unchanged, and leaves the caller's packet untouched. A second write (which may
// reuse the pooled packet object) behaves the same.
func VerifC29FanOut() {
	nb := verif.Choice("bindings", 4)
	track := &TrackLocalStaticRTP{}
	writers := make([]*verifWriter, nb)
	for i := 0; i < nb; i++ {
		writers[i] = &verifWriter{}
		track.bindings = append(track.bindings, trackBinding{
			id: string(rune('a' + i)), ssrc: SSRC(verif.U32("b_ssrc")), payloadType: PayloadType(verif.U8("b_pt") & 0x7f),
			writeStream: writers[i],
		})
	}
	for round := 0; round < verif.Param("writes", 2); round++ {
		p := verifPacket()
		// deep snapshot of the caller's packet
		snap := *p
		snapCSRC := append([]uint32{}, p.CSRC...)
		snapPay := append([]byte{}, p.Payload...)
		origPad := p.Header.PaddingSize

		err := track.WriteRTP(p)
		verif.Assert(err == nil, "write-ok")

		for i := 0; i < nb; i++ {
			verif.Assert(len(writers[i].got) == round+1, "each-binding-exactly-once")
			if len(writers[i].got) != round+1 {
				return
			}
			g := writers[i].got[round]
			verif.Assert(g.hdr.SSRC == uint32(track.bindings[i].ssrc), "rewritten-ssrc")
			verif.Assert(g.hdr.PayloadType == uint8(track.bindings[i].payloadType), "rewritten-payload-type")
			verif.Assert(verifSameExceptRewrite(g, &snap, origPad), "other-fields-and-payload-unchanged")
		}
		// caller's packet intact (including the slices it shares with the copy)
		same := p.Header.SSRC == snap.Header.SSRC && p.Header.PayloadType == snap.Header.PayloadType &&
			p.Header.PaddingSize == snap.Header.PaddingSize && p.PaddingSize == snap.PaddingSize &&
			p.Header.SequenceNumber == snap.Header.SequenceNumber && p.Header.Timestamp == snap.Header.Timestamp &&
			p.Header.Marker == snap.Header.Marker && len(p.CSRC) == len(snapCSRC) && len(p.Payload) == len(snapPay)
		verif.Assert(same, "caller-packet-header-intact")
		for i := range snapCSRC {
			verif.Assert(p.CSRC[i] == snapCSRC[i], "caller-csrc-intact")
		}
		for i := range snapPay {
			verif.Assert(p.Payload[i] == snapPay[i], "caller-payload-intact")
		}
	}
	verif.Reach("fanout-end")
}

func verifCtx(id string, w TrackLocalWriter, ssrc SSRC, pt PayloadType) *baseTrackLocalContext {
	return &baseTrackLocalContext{
		id: id, ssrc: ssrc, writeStream: w,
		params: RTPParameters{Codecs: []RTPCodecParameters{{
			RTPCodecCapability: RTPCodecCapability{MimeType: MimeTypeVP8, ClockRate: 90000},
			PayloadType:        pt,
		}}},
	}
}

// VerifC29History: bind / unbind / write histories of length <= ops over three
// possible senders: after every step a write reaches exactly the currently bound
// senders, and a removed binding receives nothing further.
func VerifC29History() {
	track, err := NewTrackLocalStaticRTP(RTPCodecCapability{MimeType: MimeTypeVP8, ClockRate: 90000}, "video", "pion")
	verif.Assert(err == nil, "track-new")
	const senders = 3
	var ws [senders]*verifWriter
	var ctx [senders]*baseTrackLocalContext
	var bound [senders]bool
	var expect [senders]int
	for i := 0; i < senders; i++ {
		ws[i] = &verifWriter{}
		ctx[i] = verifCtx(string(rune('a'+i)), ws[i], SSRC(1000+i), PayloadType(96+i))
	}
	for step := 0; step < verif.Param("ops", 4); step++ {
		i := verif.Choice("who", senders)
		switch verif.Choice("op", 3) {
		case 0:
			if !bound[i] {
				_, err := track.Bind(ctx[i])
				verif.Assert(err == nil, "bind-ok")
				bound[i] = true
			}
		case 1:
			err := track.Unbind(ctx[i])
			verif.Assert((err == nil) == bound[i], "unbind-succeeds-iff-bound")
			bound[i] = false
		default:
			p := &rtp.Packet{Header: rtp.Header{Version: 2, SequenceNumber: uint16(step), SSRC: 5}, Payload: []byte{byte(step)}}
			verif.Assert(track.WriteRTP(p) == nil, "write-ok")
			for k := 0; k < senders; k++ {
				if bound[k] {
					expect[k]++
				}
			}
			verif.Reach("wrote")
		}
		for k := 0; k < senders; k++ {
			verif.Assert(len(ws[k].got) == expect[k], "delivered-exactly-to-current-bindings")
			if n := len(ws[k].got); n > 0 && n == expect[k] {
				verif.Assert(ws[k].got[n-1].hdr.SSRC == uint32(1000+k) && ws[k].got[n-1].hdr.PayloadType == uint8(96+k), "history-rewrite")
			}
		}
	}
	verif.Reach("history-end")
}
