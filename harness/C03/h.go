//go:build verif

package webrtc

// VerifC03: every rejected SetLocalDescription/SetRemoteDescription leaves the
// signaling state and the four descriptions untouched and emits no event.
func VerifC03() { verifSignalingDriver(sigC03) }
