//go:build verif

package webrtc

import (
	"strconv"
	"strings"

	"github.com/pion/sdp/v3"
	verif "github.com/pion/webrtc/v4/internal/zzverif"
)

// A codec description the harness can hand to either side, together with the
// facts an independent reference matcher needs (family and the parameters that
// RFC 6184 / the VP9 and AV1 payload formats make significant).
type verifC15Codec struct {
	name   string // rtpmap encoding name
	clock  uint32
	ch     uint16
	fmtp   string
	family int // 0 generic, 1 h264, 2 vp9, 3 av1
	pm     string
	plid   string // first two bytes of profile-level-id, hex
	prof   string // vp9 profile-id / av1 profile ("0" when absent)
	params map[string]string
}

var verifC15Video = []verifC15Codec{
	{name: "VP8", clock: 90000, params: map[string]string{}},
	{name: "H264", clock: 90000, fmtp: "level-asymmetry-allowed=1;packetization-mode=1;profile-level-id=42001f", family: 1, pm: "1", plid: "4200"},
	{name: "H264", clock: 90000, fmtp: "packetization-mode=1;profile-level-id=420029", family: 1, pm: "1", plid: "4200"},
	{name: "H264", clock: 90000, fmtp: "level-asymmetry-allowed=1;packetization-mode=0;profile-level-id=42001f", family: 1, pm: "0", plid: "4200"},
	{name: "H264", clock: 90000, fmtp: "level-asymmetry-allowed=1;packetization-mode=1;profile-level-id=640c1f", family: 1, pm: "1", plid: "640c"},
	{name: "VP9", clock: 90000, fmtp: "profile-id=0", family: 2, prof: "0"},
	{name: "VP9", clock: 90000, fmtp: "", family: 2, prof: "0"},
	{name: "VP9", clock: 90000, fmtp: "profile-id=1", family: 2, prof: "1"},
	{name: "AV1", clock: 90000, fmtp: "profile=1", family: 3, prof: "1"},
	{name: "AV1", clock: 90000, fmtp: "", family: 3, prof: "0"},
	{name: "vp8", clock: 90000, params: map[string]string{}},
	// same profile_idc as the Baseline entries, different constraint flags (profile-iop)
	{name: "H264", clock: 90000, fmtp: "level-asymmetry-allowed=1;packetization-mode=1;profile-level-id=42e01f", family: 1, pm: "1", plid: "42e0"},
}

var verifC15Audio = []verifC15Codec{
	{name: "opus", clock: 48000, ch: 2, fmtp: "minptime=10;useinbandfec=1", params: map[string]string{"minptime": "10", "useinbandfec": "1"}},
	{name: "opus", clock: 48000, ch: 2, fmtp: "minptime=20", params: map[string]string{"minptime": "20"}},
	{name: "opus", clock: 48000, ch: 2, fmtp: "useinbandfec=1;stereo=1", params: map[string]string{"useinbandfec": "1", "stereo": "1"}},
	{name: "PCMU", clock: 8000, ch: 0, params: map[string]string{"": ""}},
	{name: "PCMA", clock: 8000, ch: 0, params: map[string]string{"": ""}},
}

var verifC15Feedback = [][]RTCPFeedback{
	{{Type: "nack"}, {Type: "nack", Parameter: "pli"}},
	{{Type: "goog-remb"}, {Type: "nack", Parameter: "pli"}},
	{{Type: "nack"}},
	{},
}

// Curated codec lists (indices into the template tables) for the quick tier:
// exact-only, partial-only, mixed, none, duplicates and order-sensitive cases.
var verifC15Lists = map[string][2][][]int{
	"video": {
		{{0}, {1}, {1, 3}, {3, 1}, {5, 7}, {0, 1}, {10}, {8, 9}, {2, 4}, {0, 11}},
		{{0}, {1}, {2, 3}, {4, 1}, {6, 7}, {0, 2}, {9, 8}, {3}, {7, 5}, {2, 2}, {11, 0}},
	},
	"audio": {
		{{0}, {1}, {0, 3}, {3, 4}, {2, 0}},
		{{0}, {1}, {2}, {3}, {0, 3}, {1, 0}, {4, 3}},
	},
}

// --- the reference matcher (written from the documented rules, not from the code)

func verifC15DefClock(mime string) uint32 {
	switch strings.ToLower(mime) {
	case "audio/opus":
		return 48000
	case "audio/pcmu", "audio/pcma":
		return 8000
	}
	return 90000
}

func verifC15ClockEq(mime string, a, b uint32) bool {
	if a == 0 {
		a = verifC15DefClock(mime)
	}
	if b == 0 {
		b = verifC15DefClock(mime)
	}
	return a == b
}

func verifC15ChanEq(mime string, a, b uint16) bool {
	def := uint16(1)
	if strings.ToLower(mime) == "audio/opus" {
		def = 2
	}
	if a == 0 {
		a = def
	}
	if b == 0 {
		b = def
	}
	return a == b
}

type verifC15Side struct {
	t     verifC15Codec
	mime  string
	clock uint32
	ch    uint16
	pt    PayloadType
	fb    []RTCPFeedback
}

func verifC15Partial(l, r *verifC15Side) bool {
	if !strings.EqualFold(l.mime, r.mime) {
		return false
	}
	if !verifC15ClockEq(l.mime, l.clock, r.clock) {
		return false
	}
	return verifC15ChanEq(l.mime, l.ch, r.ch)
}

func verifC15Exact(l, r *verifC15Side) bool {
	if !strings.EqualFold(l.mime, r.mime) {
		return false
	}
	switch l.t.family {
	case 1:
		return l.t.pm == r.t.pm && l.t.plid == r.t.plid
	case 2, 3:
		return l.t.prof == r.t.prof
	}
	if !verifC15Partial(l, r) {
		return false
	}
	for k, v := range l.t.params {
		if w, ok := r.t.params[k]; ok && !strings.EqualFold(v, w) {
			return false
		}
	}
	return true
}

func verifC15SameFeedback(a, b []RTCPFeedback) bool {
	if len(a) != len(b) {
		return false
	}
	for i := range a {
		if a[i].Type != b[i].Type || a[i].Parameter != b[i].Parameter {
			return false
		}
	}
	return true
}

func verifC15Intersect(local, remote []RTCPFeedback) []RTCPFeedback {
	out := []RTCPFeedback{}
	for _, x := range local {
		for _, y := range remote {
			if x.Type == y.Type && x.Parameter == y.Parameter {
				out = append(out, x)
				break
			}
		}
	}
	return out
}

// verifC15 registers nl local codecs of one kind (template by choice, clock
// rate and channel count arbitrary, payload type from a small set that overlaps
// the remote's numbering) and applies a remote media section offering nr codecs
// (templates by choice, the remote's own payload types, optionally one RTX
// entry pointing at the first offered codec).
func verifC15(kind string, table []verifC15Codec) {
	typ := RTPCodecTypeVideo
	if kind == "audio" {
		typ = RTPCodecTypeAudio
	}
	nTpl := verif.Param("templates", len(table))
	if nTpl > len(table) {
		nTpl = len(table)
	}
	m := &MediaEngine{}
	localPTs := []PayloadType{96, 100, 101}
	curated := verif.Param("curated", 0) == 1
	nFb := verif.Param("feedback_sets", len(verifC15Feedback))
	var localList, remoteList []int
	if curated {
		ls := verifC15Lists[kind]
		localList = ls[0][verif.Choice("local_list", len(ls[0]))]
		remoteList = ls[1][verif.Choice("remote_list", len(ls[1]))]
	} else {
		nl := 1 + verif.Choice("n_local", verif.Param("max_local", 2))
		for i := 0; i < nl; i++ {
			localList = append(localList, verif.Choice("local_tpl", nTpl))
		}
		nr := 1 + verif.Choice("n_remote", verif.Param("max_remote", 2))
		for i := 0; i < nr; i++ {
			remoteList = append(remoteList, verif.Choice("remote_tpl", nTpl))
		}
	}
	nl, nr := len(localList), len(remoteList)
	swapPT := verif.Bool("local_pt_order")
	locals := []*verifC15Side{}
	for i := 0; i < nl; i++ {
		t := table[localList[i]]
		s := &verifC15Side{t: t, mime: kind + "/" + t.name}
		s.clock = verif.U32("local_clock")
		s.ch = verif.U16("local_channels")
		// payload types that collide with the remote's numbering in either order
		if swapPT {
			s.pt = localPTs[(i+1)%len(localPTs)]
		} else {
			s.pt = localPTs[i]
		}
		s.fb = verifC15Feedback[0]
		if i == 0 {
			s.fb = verifC15Feedback[verif.Choice("local_fb", nFb)]
		}
		err := m.RegisterCodec(RTPCodecParameters{
			RTPCodecCapability: RTPCodecCapability{MimeType: s.mime, ClockRate: s.clock, Channels: s.ch, SDPFmtpLine: t.fmtp, RTCPFeedback: s.fb},
			PayloadType:        s.pt,
		}, typ)
		if err != nil {
			verif.Reach("duplicate-local-payload-type")
			return
		}
		locals = append(locals, s)
	}
	withRTX := kind == "video" && verif.Bool("remote_rtx")
	if withRTX {
		verif.Assert(m.RegisterCodec(RTPCodecParameters{
			RTPCodecCapability: RTPCodecCapability{MimeType: MimeTypeRTX, ClockRate: 90000, SDPFmtpLine: "apt=" + strconv.Itoa(int(locals[0].pt))},
			PayloadType:        121,
		}, typ) == nil, "setup")
	}

	remotePTs := []string{"100", "96", "101", "102"}
	remotes := []*verifC15Side{}
	md := &sdp.MediaDescription{MediaName: sdp.MediaName{Media: kind, Protos: []string{"UDP", "TLS", "RTP", "SAVPF"}}}
	for i := 0; i < nr; i++ {
		t := table[remoteList[i]]
		n, _ := strconv.Atoi(remotePTs[i])
		s := &verifC15Side{t: t, mime: kind + "/" + t.name, clock: t.clock, ch: t.ch, pt: PayloadType(n)}
		s.fb = verifC15Feedback[2]
		if i == 0 {
			s.fb = verifC15Feedback[verif.Choice("remote_fb", nFb)]
		}
		md.MediaName.Formats = append(md.MediaName.Formats, remotePTs[i])
		rtpmap := remotePTs[i] + " " + t.name + "/" + strconv.Itoa(int(t.clock))
		if t.ch != 0 {
			rtpmap += "/" + strconv.Itoa(int(t.ch))
		}
		md.Attributes = append(md.Attributes, sdp.Attribute{Key: "rtpmap", Value: rtpmap})
		if t.fmtp != "" {
			md.Attributes = append(md.Attributes, sdp.Attribute{Key: "fmtp", Value: remotePTs[i] + " " + t.fmtp})
		}
		for _, f := range s.fb {
			v := remotePTs[i] + " " + f.Type
			if f.Parameter != "" {
				v += " " + f.Parameter
			}
			md.Attributes = append(md.Attributes, sdp.Attribute{Key: "rtcp-fb", Value: v})
		}
		remotes = append(remotes, s)
	}
	const rtxPT = 110
	if withRTX {
		md.MediaName.Formats = append(md.MediaName.Formats, "110")
		md.Attributes = append(md.Attributes,
			sdp.Attribute{Key: "rtpmap", Value: "110 rtx/90000"},
			sdp.Attribute{Key: "fmtp", Value: "110 apt=" + remotePTs[0]})
	}

	err := m.updateFromRemoteDescription(sdp.SessionDescription{MediaDescriptions: []*sdp.MediaDescription{md}})
	verif.Assert(err == nil, "remote-description-applied")

	negotiated := m.negotiatedVideoCodecs
	if kind == "audio" {
		negotiated = m.negotiatedAudioCodecs
	}

	// reference: which remote codecs have an exact / a partial local match, and
	// the first local codec that matches (exact matches searched first)
	anyExact, anyPartial := false, false
	exact := make([]bool, nr)
	partial := make([]bool, nr)
	first := make([]*verifC15Side, nr)
	for i, r := range remotes {
		for _, l := range locals {
			if verifC15Exact(l, r) {
				exact[i] = true
				if first[i] == nil {
					first[i] = l
				}
			}
		}
		if !exact[i] {
			for _, l := range locals {
				if verifC15Partial(l, r) {
					partial[i] = true
					if first[i] == nil {
						first[i] = l
					}
				}
			}
		}
		anyExact = anyExact || exact[i]
		anyPartial = anyPartial || partial[i]
	}

	primaryNegotiated := false
	sawRTX := false
	count := 0
	for _, n := range negotiated {
		if withRTX && n.PayloadType == rtxPT {
			// the RTX entry: offered by the remote as such, usable only next to its primary codec
			sawRTX = true
			verif.Assert(strings.EqualFold(n.MimeType, MimeTypeRTX), "negotiated-codec-was-offered")
			verif.Assert(n.SDPFmtpLine == "apt="+remotePTs[0], "negotiated-codec-was-offered")
			continue
		}
		idx := -1
		for i, r := range remotes {
			if r.pt == n.PayloadType {
				idx = i
			}
		}
		verif.Assert(idx >= 0, "remote-payload-type-used")
		if idx < 0 {
			return
		}
		r := remotes[idx]
		count++
		if idx == 0 {
			primaryNegotiated = true
		}
		// the entry is the codec the remote offered under that payload type
		verif.Assert(n.MimeType == r.mime, "negotiated-codec-was-offered")
		verif.Assert(n.ClockRate == r.clock, "negotiated-codec-was-offered")
		verif.Assert(n.Channels == r.ch, "negotiated-codec-was-offered")
		verif.Assert(n.SDPFmtpLine == r.t.fmtp, "negotiated-codec-was-offered")
		// and a local codec matches it
		verif.Assert(exact[idx] || partial[idx], "negotiated-codec-matched-locally")
		// exact matches are preferred over partial ones
		if anyExact {
			verif.Assert(exact[idx], "exact-preferred-over-partial")
		}
		// feedback is the intersection of the matched local codec's and the remote's
		if first[idx] != nil {
			verif.Assert(verifC15SameFeedback(n.RTCPFeedback, verifC15Intersect(first[idx].fb, r.fb)), "feedback-is-intersection")
		}
	}
	if sawRTX {
		verif.Assert(primaryNegotiated, "rtx-only-with-its-primary")
	}
	// every remote codec with a match of the preferred class is negotiated
	for i := range remotes {
		want := exact[i] || (!anyExact && partial[i])
		have := false
		for _, n := range negotiated {
			if n.PayloadType == remotes[i].pt {
				have = true
			}
		}
		verif.Assert(have == want, "matching-remote-codecs-negotiated")
	}
	if !anyExact && !anyPartial {
		verif.Assert(count == 0, "negotiated-codec-matched-locally")
		verif.Reach("nothing-matched")
	} else {
		verif.Reach("negotiated")
	}

	// incoming payload types resolve against the negotiated set before the local one
	pt := PayloadType(verif.U8("incoming_pt"))
	got, gotTyp, gerr := m.getCodecByPayload(pt)
	var inNeg *RTPCodecParameters
	for i := range negotiated {
		if negotiated[i].PayloadType == pt {
			inNeg = &negotiated[i]
		}
	}
	if inNeg != nil {
		verif.Assert(gerr == nil, "payload-resolves-to-negotiated")
		verif.Assert(gotTyp == typ, "payload-resolves-to-negotiated")
		verif.Assert(got.MimeType == inNeg.MimeType, "payload-resolves-to-negotiated")
		verif.Assert(got.SDPFmtpLine == inNeg.SDPFmtpLine, "payload-resolves-to-negotiated")
	} else if anyExact || anyPartial {
		// the kind is negotiated: a payload type outside the negotiated set is unknown,
		// even when a locally registered codec carries that number
		verif.Assert(gerr != nil, "payload-outside-negotiated-set-unknown")
	}
}

func VerifC15Video() { verifC15("video", verifC15Video) }
func VerifC15Audio() { verifC15("audio", verifC15Audio) }
