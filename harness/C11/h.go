//go:build verif

package webrtc

import (
	"sync"

	"github.com/pion/sdp/v3"
	verif "github.com/pion/webrtc/v4/internal/zzverif"
)

// verifFreshDescr is a newly built description: pion/sdp gives it a random
// non-zero 63-bit session id and a non-zero session version (seconds since 1900).
func verifFreshDescr(tag string) *sdp.SessionDescription {
	d := &sdp.SessionDescription{}
	d.Origin.SessionID = verif.U64(tag + "_fresh_id")
	d.Origin.SessionVersion = verif.U64(tag + "_fresh_version")
	verif.Assume(d.Origin.SessionID != 0)
	verif.Assume(d.Origin.SessionVersion != 0)
	verif.Assume(d.Origin.SessionVersion < 1<<62)
	return d
}

// verifStoredOrigin is an arbitrary stored origin satisfying the representation
// invariant: both fields zero (nothing generated yet) or both non-zero.
func verifStoredOrigin() *sdp.Origin {
	o := &sdp.Origin{}
	if verif.Bool("already_generated") {
		o.SessionID = verif.U64("stored_id")
		o.SessionVersion = verif.U64("stored_version")
		verif.Assume(o.SessionID != 0)
		verif.Assume(o.SessionVersion != 0)
		verif.Assume(o.SessionVersion < 1<<62)
	}
	return o
}

// VerifC11Step: one updateSDPOrigin from an arbitrary stored origin keeps the
// invariant, never changes a stored session id, and hands out a version that is
// strictly greater than the stored one (or installs the fresh pair).
func VerifC11Step() {
	o := verifStoredOrigin()
	preID, preVer := o.SessionID, o.SessionVersion
	d := verifFreshDescr("a")
	updateSDPOrigin(o, d)
	verif.Assert((o.SessionID == 0) == (o.SessionVersion == 0) && o.SessionID != 0, "invariant-after-step")
	if preID != 0 {
		verif.Assert(o.SessionID == preID && d.Origin.SessionID == preID, "session-id-fixed")
		verif.Assert(d.Origin.SessionVersion > preVer, "version-strictly-increases")
		verif.Reach("later-description")
	} else {
		verif.Assert(d.Origin.SessionID == o.SessionID, "first-description-installs-id")
		verif.Reach("first-description")
	}
	verif.Assert(d.Origin.SessionVersion == o.SessionVersion, "stored-version-is-last-handed-out")
	// a second description: same id, larger version
	d2 := verifFreshDescr("b")
	updateSDPOrigin(o, d2)
	verif.Assert(d2.Origin.SessionID == d.Origin.SessionID, "same-id-on-next")
	verif.Assert(d2.Origin.SessionVersion > d.Origin.SessionVersion, "next-version-greater")
}

// VerifC11Concurrent: two (or three) concurrent updateSDPOrigin calls on one
// stored origin, every interleaving of their atomic operations: all descriptions
// carry one session id, their versions are pairwise distinct, and a call made
// after all of them returned gets a larger version than each.
func VerifC11Concurrent() {
	o := verifStoredOrigin()
	n := 2 + verif.Choice("extra_thread", verif.Param("callers", 3)-1)
	ds := make([]*sdp.SessionDescription, n)
	var wg sync.WaitGroup
	for i := 0; i < n; i++ {
		ds[i] = verifFreshDescr("t")
		wg.Add(1)
		go func(d *sdp.SessionDescription) {
			defer wg.Done()
			updateSDPOrigin(o, d)
		}(ds[i])
	}
	wg.Wait()
	for i := 0; i < n; i++ {
		verif.Assert(ds[i].Origin.SessionID != 0, "concurrent-id-nonzero")
		for j := i + 1; j < n; j++ {
			verif.Assert(ds[i].Origin.SessionID == ds[j].Origin.SessionID, "concurrent-same-id")
			verif.Assert(ds[i].Origin.SessionVersion != ds[j].Origin.SessionVersion, "concurrent-distinct-versions")
		}
	}
	later := verifFreshDescr("later")
	updateSDPOrigin(o, later)
	for i := 0; i < n; i++ {
		verif.Assert(later.Origin.SessionID == ds[i].Origin.SessionID, "later-same-id")
		verif.Assert(later.Origin.SessionVersion > ds[i].Origin.SessionVersion, "later-version-greater")
	}
	verif.Reach("concurrent-end")
}
