//go:build verif

package webrtc

import (
	verif "github.com/pion/webrtc/v4/internal/zzverif"
)

// VerifC11Offers: descriptions generated through the public API. A transceiver
// is stopped concurrently with CreateOffer, so that (in some interleavings) the
// offer is recomputed inside CreateOffer; every offer of the connection must
// carry the same session id and a version greater than the previous offer's.
func VerifC11Offers() {
	pc := verifNewPC(SettingEngine{}, Configuration{})
	tr, err := pc.AddTransceiverFromKind(RTPCodecTypeVideo, RTPTransceiverInit{Direction: RTPTransceiverDirectionRecvonly})
	verif.Assert(err == nil, "add-transceiver")
	_, err = pc.AddTransceiverFromKind(RTPCodecTypeAudio, RTPTransceiverInit{Direction: RTPTransceiverDirectionRecvonly})
	verif.Assert(err == nil, "add-transceiver")
	first, err := pc.CreateOffer(nil)
	verif.Assert(err == nil, "first-offer")
	if err != nil {
		return
	}
	go func() { _ = tr.Stop() }()
	second, err := pc.CreateOffer(nil)
	verif.Assert(err == nil, "second-offer")
	verif.Settle()
	third, err3 := pc.CreateOffer(nil)
	verif.Assert(err3 == nil, "third-offer")
	if err != nil || err3 != nil {
		return
	}
	p1, p2, p3 := verifParse(first), verifParse(second), verifParse(third)
	verif.Assert(p1 != nil && p2 != nil && p3 != nil, "offers-parse")
	if p1 == nil || p2 == nil || p3 == nil {
		return
	}
	verif.Assert(p1.Origin.SessionID == p2.Origin.SessionID && p2.Origin.SessionID == p3.Origin.SessionID, "offers-share-session-id")
	verif.Assert(p2.Origin.SessionVersion > p1.Origin.SessionVersion, "second-offer-version-greater")
	verif.Assert(p3.Origin.SessionVersion > p2.Origin.SessionVersion, "third-offer-version-greater")
	verif.Reach("offers-end")
}
