//go:build verif

package webrtc

// VerifC08 drives the shared negotiation scenarios (harness/lib/sdpdriver.go.txt)
// and asserts the conditions of property C08 on every description produced.
func VerifC08() { verifSDPDriver(checkC08) }
