//go:build verif

package oggwriter

import (
	"errors"
	"io"

	"github.com/pion/rtp"
	"github.com/pion/webrtc/v4/pkg/media/oggreader"
	verif "github.com/pion/webrtc/v4/internal/zzverif"
)

// verifOut is an in-memory sink implementing io.Writer, io.Seeker and io.WriterAt.
type verifOut struct {
	data []byte
	pos  int
}

func (f *verifOut) Write(p []byte) (int, error) {
	for len(f.data) < f.pos+len(p) {
		f.data = append(f.data, 0)
	}
	copy(f.data[f.pos:], p)
	f.pos += len(p)
	return len(p), nil
}

func (f *verifOut) Seek(off int64, whence int) (int64, error) {
	switch whence {
	case io.SeekStart:
		f.pos = int(off)
	case io.SeekCurrent:
		f.pos += int(off)
	default:
		return 0, errors.New("verifOut: unsupported whence")
	}
	return int64(f.pos), nil
}

func (f *verifOut) WriteAt(p []byte, off int64) (int, error) {
	if int(off)+len(p) > len(f.data) {
		return 0, errors.New("verifOut: WriteAt past end")
	}
	copy(f.data[off:], p)
	return len(p), nil
}

// verifPipe hides Seek/WriteAt.
type verifPipe struct{ out *verifOut }

func (p verifPipe) Write(b []byte) (int, error) { return p.out.Write(b) }

type verifIn struct {
	data []byte
	pos  int
}

func (s *verifIn) Read(p []byte) (int, error) {
	if s.pos >= len(s.data) {
		return 0, io.EOF
	}
	n := copy(p, s.data[s.pos:])
	s.pos += n
	return n, nil
}

type verifPage struct {
	flags   byte
	granule uint64
	serial  uint32
	seq     uint32
	payload []byte
}

// verifWalk is a reference Ogg page walker written from RFC 3533 section 6.
func verifWalk(data []byte) ([]verifPage, bool) {
	var pages []verifPage
	pos := 0
	for pos < len(data) {
		if len(data)-pos < 27 {
			return pages, false
		}
		h := data[pos : pos+27]
		if h[0] != 'O' || h[1] != 'g' || h[2] != 'g' || h[3] != 'S' || h[4] != 0 {
			return pages, false
		}
		pg := verifPage{flags: h[5]}
		for i := 7; i >= 0; i-- {
			pg.granule = pg.granule<<8 | uint64(h[6+i])
		}
		for i := 3; i >= 0; i-- {
			pg.serial = pg.serial<<8 | uint32(h[14+i])
			pg.seq = pg.seq<<8 | uint32(h[18+i])
		}
		nseg := int(h[26])
		if len(data)-pos < 27+nseg {
			return pages, false
		}
		size := 0
		for s := 0; s < nseg; s++ {
			size += int(data[pos+27+s])
		}
		if len(data)-pos < 27+nseg+size {
			return pages, false
		}
		pg.payload = data[pos+27+nseg : pos+27+nseg+size]
		pages = append(pages, pg)
		pos += 27 + nseg + size
	}
	return pages, true
}

func verifHasPrefix(b []byte, s string) bool {
	if len(b) < len(s) {
		return false
	}
	for i := 0; i < len(s); i++ {
		if b[i] != s[i] {
			return false
		}
	}
	return true
}

// VerifC33Stream: a whole stream written through Writer/Track (1..2 tracks,
// seekable or not) is valid Ogg: per logical stream a BOS OpusHead page, then
// OpusTags, then data pages numbered from 0 without gaps whose granule position
// is the cumulative Opus sample count, the last page carrying EOS; every page
// passes the reader's CRC check and the data payloads are the written packets.
func VerifC33Stream() {
	seekable := verif.Bool("seekable")
	ntracks := 1 + verif.Choice("tracks", verif.Param("max_tracks", 2))
	out := &verifOut{}
	var w *Writer
	var err error
	if seekable {
		w, err = NewWriter(out, WithSeekableOutput(out))
	} else {
		w, err = NewWriter(verifPipe{out})
	}
	verif.Assert(err == nil, "writer-open")
	var tracks []*Track
	for t := 0; t < ntracks; t++ {
		tr, err := w.NewTrack(uint32(1000+t), WithSerial(uint32(7+t)))
		verif.Assert(err == nil, "track-open")
		tracks = append(tracks, tr)
	}
	type sent struct {
		track   int
		payload []byte
		samples uint64
	}
	var log []sent
	npk := verif.Param("packets", 2)
	for i := 0; i < npk; i++ {
		t := verif.Choice("track_of_packet", ntracks)
		n := 1 + verif.Choice("paylen", verif.Param("max_payload", 2))
		pay := verif.Bytes("pay", n)
		samples, serr := opusPacketSampleCount(pay) // checked against RFC 6716 by VerifC33Toc
		werr := tracks[t].WriteRTP(&rtp.Packet{Header: rtp.Header{Version: 2, SSRC: uint32(1000 + t)}, Payload: pay})
		if serr != nil {
			verif.Assert(werr != nil, "invalid-opus-rejected")
			continue
		}
		verif.Assert(werr == nil, "write-ok")
		log = append(log, sent{track: t, payload: pay, samples: samples})
	}
	verif.Assert(w.Close() == nil, "close-ok")

	pages, ok := verifWalk(out.data)
	verif.Assert(ok, "output-is-a-sequence-of-ogg-pages")
	if !ok {
		return
	}
	// every page passes the real reader (CRC on)
	rd, err := oggreader.NewWithOptions(&verifIn{data: out.data})
	verif.Assert(err == nil, "reader-open")
	for i := range pages {
		payload, hdr, err := rd.ParseNextPage()
		verif.Assert(err == nil, "reader-accepts-page-crc")
		if err != nil {
			return
		}
		verif.Assert(hdr.GranulePosition == pages[i].granule && hdr.Serial == pages[i].serial, "reader-header-fields")
		verif.Assert(len(payload) == len(pages[i].payload), "reader-payload-length")
	}
	_, _, err = rd.ParseNextPage()
	verif.Assert(errors.Is(err, io.EOF), "reader-eof")

	for t := 0; t < ntracks; t++ {
		serial := uint32(7 + t)
		var mine []verifPage
		for _, pg := range pages {
			if pg.serial == serial {
				mine = append(mine, pg)
			}
		}
		var want []sent
		for _, s := range log {
			if s.track == t {
				want = append(want, s)
			}
		}
		verif.Assert(len(mine) >= 2, "has-header-pages")
		if len(mine) < 2 {
			return
		}
		verif.Assert(mine[0].flags&0x02 != 0 && verifHasPrefix(mine[0].payload, "OpusHead"), "first-page-bos-opushead")
		verif.Assert(verifHasPrefix(mine[1].payload, "OpusTags") && mine[1].flags&0x02 == 0, "second-page-opustags")
		var cum uint64
		var prev uint64
		for i, pg := range mine {
			verif.Assert(pg.seq == uint32(i), "page-sequence-from-zero")
			verif.Assert(i == 0 || pg.flags&0x02 == 0, "bos-only-first")
			verif.Assert(pg.granule >= prev, "granule-monotone")
			prev = pg.granule
		}
		data := mine[2:]
		// a non-seekable stream ends with an empty EOS page
		if !seekable && len(data) > 0 && len(data[len(data)-1].payload) == 0 {
			data = data[:len(data)-1]
		}
		verif.KeyBool("data-pages-equal-packets", "seekable", seekable)
		verif.Assert(len(data) == len(want), "data-pages-equal-packets")
		if len(data) != len(want) {
			return
		}
		for i := range want {
			cum += want[i].samples
			verif.Assert(data[i].granule == cum, "granule-is-cumulative-samples")
			verif.Assert(len(data[i].payload) == len(want[i].payload), "packet-length")
			for j := range want[i].payload {
				verif.Assert(data[i].payload[j] == want[i].payload[j], "packet-bytes")
			}
		}
		lastPg := mine[len(mine)-1]
		verif.KeyBool("last-page-eos", "seekable", seekable)
		verif.KeyBool("last-page-eos", "has_data", len(want) > 0)
		verif.Assert(lastPg.flags&0x04 != 0, "last-page-eos")
		for i := 0; i+1 < len(mine); i++ {
			verif.Assert(mine[i].flags&0x04 == 0, "eos-only-last")
		}
	}
	verif.Reach("stream-end")
}

// VerifC33Single: the single-track OggWriter (NewWith on a plain io.Writer).
func VerifC33Single() {
	out := &verifOut{}
	channels := uint16(1 + verif.Choice("channels", 2))
	w, err := NewWith(verifPipe{out}, 48000, channels)
	verif.Assert(err == nil, "writer-open")
	var log [][]byte
	var samples []uint64
	npk := verif.Param("packets", 2)
	for i := 0; i < npk; i++ {
		n := 1 + verif.Choice("paylen", verif.Param("max_payload", 2))
		pay := verif.Bytes("pay", n)
		sc, serr := opusPacketSampleCount(pay)
		werr := w.WriteRTP(&rtp.Packet{Header: rtp.Header{Version: 2}, Payload: pay})
		if serr != nil {
			verif.Assert(werr != nil, "invalid-opus-rejected")
			continue
		}
		verif.Assert(werr == nil, "write-ok")
		log = append(log, pay)
		samples = append(samples, sc)
	}
	verif.Assert(w.Close() == nil, "close-ok")
	pages, ok := verifWalk(out.data)
	verif.Assert(ok, "output-is-a-sequence-of-ogg-pages")
	if !ok || len(pages) < 2 {
		verif.Assert(false, "has-header-pages")
		return
	}
	rd, hdr, err := oggreader.NewWith(&verifIn{data: out.data})
	verif.Assert(err == nil && hdr != nil, "reader-accepts-opushead")
	if err != nil {
		return
	}
	verif.Assert(hdr.Channels == uint8(channels) && hdr.SampleRate == 48000, "opushead-fields")
	for i := 1; i < len(pages); i++ {
		payload, _, err := rd.ParseNextPage()
		verif.Assert(err == nil, "reader-accepts-page-crc")
		if err != nil {
			return
		}
		verif.Assert(len(payload) == len(pages[i].payload), "reader-payload-length")
	}
	verif.Assert(pages[0].flags&0x02 != 0 && verifHasPrefix(pages[0].payload, "OpusHead"), "first-page-bos-opushead")
	verif.Assert(verifHasPrefix(pages[1].payload, "OpusTags"), "second-page-opustags")
	var cum uint64
	data := pages[2:]
	if len(data) > 0 && len(data[len(data)-1].payload) == 0 {
		data = data[:len(data)-1]
	}
	verif.Assert(len(data) == len(log), "data-pages-equal-packets")
	if len(data) != len(log) {
		return
	}
	for i := range log {
		cum += samples[i]
		verif.Assert(data[i].granule == cum, "granule-is-cumulative-samples")
		verif.Assert(len(data[i].payload) == len(log[i]), "packet-length")
		for j := range log[i] {
			verif.Assert(data[i].payload[j] == log[i][j], "packet-bytes")
		}
	}
	for i, pg := range pages {
		verif.Assert(pg.seq == uint32(i), "page-sequence-from-zero")
	}
	verif.Key("single-last-page-eos", "writer", 1)
	verif.Assert(pages[len(pages)-1].flags&0x04 != 0, "single-last-page-eos")
	verif.Reach("single-end")
}
