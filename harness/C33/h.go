//go:build verif

package oggwriter

import (
	verif "github.com/pion/webrtc/v4/internal/zzverif"
)

// verifOpusFrameSamples: samples (at 48 kHz) of one frame for a TOC configuration
// number, from RFC 6716 section 3.1, table 2.
func verifOpusFrameSamples(config uint8) uint64 {
	tenthsOfMs := [32]uint64{
		100, 200, 400, 600, // SILK NB
		100, 200, 400, 600, // SILK MB
		100, 200, 400, 600, // SILK WB
		100, 200, // Hybrid SWB
		100, 200, // Hybrid FB
		25, 50, 100, 200, // CELT NB
		25, 50, 100, 200, // CELT WB
		25, 50, 100, 200, // CELT SWB
		25, 50, 100, 200, // CELT FB
	}
	return tenthsOfMs[config&31] * 48 / 10
}

// VerifC33Toc: opusPacketSampleCount agrees with RFC 6716 for every TOC byte,
// every frame-count byte and packet lengths 0..2.
func VerifC33Toc() {
	n := verif.Choice("len", 3)
	p := verif.Bytes("p", n)
	got, err := opusPacketSampleCount(p)
	if n == 0 {
		verif.Assert(err != nil, "empty-packet-invalid")
		verif.Reach("toc-empty")
		return
	}
	toc := p[0]
	per := verifOpusFrameSamples(toc >> 3)
	var frames uint64
	valid := true
	switch toc & 3 {
	case 0:
		frames = 1
	case 1, 2:
		frames = 2
	default:
		if n < 2 {
			valid = false
		} else {
			frames = uint64(p[1] & 0x3f)
			if frames == 0 {
				valid = false
			}
		}
	}
	want := per * frames
	if want > 5760 { // 120 ms at 48 kHz (RFC 6716 3.2.5)
		valid = false
	}
	verif.Key("toc-validity", "c", int(toc&3))
	verif.Assert((err == nil) == valid, "toc-validity")
	if err == nil && valid {
		verif.Key("toc-samples", "config", int(toc>>3))
		verif.Assert(got == want, "toc-samples")
		verif.Reach("toc-valid")
	} else {
		verif.Reach("toc-invalid")
	}
}

// VerifC33CRCStep: one table-driven update equals one byte step of the bitwise
// CRC-32 with polynomial 0x04c11db7, no reflection, for every (crc, byte).
func VerifC33CRCStep() {
	table := generateChecksumTable()
	crc := verif.U32("crc")
	b := verif.U8("byte")
	viaTable := (crc << 8) ^ table[byte(crc>>24)^b]
	r := crc ^ uint32(b)<<24
	for i := 0; i < 8; i++ {
		if r&0x80000000 != 0 {
			r = (r << 1) ^ 0x04c11db7
		} else {
			r <<= 1
		}
	}
	verif.Assert(viaTable == r, "crc-table-step-is-bitwise-step")
	verif.Reach("crc-end")
}

// verifFakePage replaces createPageForSerialWithSegments under the executor only:
// it builds the 27-byte header and the segment table but skips the payload copy
// and the CRC loop (their cost grows with the payload; CRC is covered by
// VerifC33CRCStep and the read-back harness). The oracle below reads only fields
// present in both versions.
func verifFakePage(checksumTable *[256]uint32, payload []byte, segmentTable []byte, headerType uint8,
	granulePos uint64, serial uint32, pageIndex uint32) []byte {
	page := make([]byte, pageHeaderSize+len(segmentTable))
	copy(page[0:], pageHeaderSignature)
	page[5] = headerType
	for i := 0; i < 8; i++ {
		page[6+i] = byte(granulePos >> (8 * i))
	}
	for i := 0; i < 4; i++ {
		page[14+i] = byte(serial >> (8 * i))
		page[18+i] = byte(pageIndex >> (8 * i))
	}
	page[26] = uint8(len(segmentTable))
	copy(page[pageHeaderSize:], segmentTable)
	return page
}

// VerifC33Lacing: for every packet length L in [0, max_packet] the pages produced
// for one packet lace it correctly: segment tables sum to the bytes carried,
// at most 255 segments per page, the packet ends with a lacing value < 255,
// continuation flag exactly on pages after the first, BOS/EOS only where
// allowed, granule position -1 on unfinished pages, page numbers consecutive.
func VerifC33Lacing() {
	payload := verif.SymLenBytes("L", verif.Param("max_packet", 66000))
	total := len(payload)
	headerType := verif.U8("header_type")
	verif.Assume(headerType&^(pageHeaderTypeBeginningOfStream|pageHeaderTypeEndOfStream) == 0)
	granule := verif.U64("granule")
	verif.Assume(granule != noGranulePosition)
	first := verif.U32("first_index")
	pages := createPagesForSerial(nil, payload, headerType, granule, 7, first)

	verif.Assert(len(pages) >= 1, "at-least-one-page")
	carried := 0
	for i, pg := range pages {
		last := i == len(pages)-1
		nseg := int(pg.data[26])
		verif.Assert(nseg <= 255, "segments-per-page")
		sum := 0
		for s := 0; s < nseg; s++ {
			sum += int(pg.data[pageHeaderSize+s])
		}
		verif.Assert(sum == len(pg.payload), "segment-table-sums-to-page-payload")
		if sum > 0 && sum == len(pg.payload) {
			// the page carries the next bytes of the packet: its payload starts where the previous page ended
			verif.Assert(&pg.payload[0] == &payload[carried], "page-payload-is-next-part-of-packet")
		}
		carried += sum
		lastLace := -1
		if nseg > 0 {
			lastLace = int(pg.data[pageHeaderSize+nseg-1])
		}
		if last {
			verif.Assert(nseg >= 1 && lastLace < 255, "packet-terminated-by-short-lace")
			verif.Assert(pg.granulePos == granule, "granule-on-completing-page")
		} else {
			verif.Assert(nseg == 255 && lastLace == 255, "unfinished-page-is-full")
			verif.Assert(pg.granulePos == noGranulePosition, "no-granule-on-unfinished-page")
		}
		cont := pg.data[5]&pageHeaderTypeContinuationOfPacket != 0
		verif.Assert(cont == (i > 0), "continuation-flag")
		bos := pg.data[5]&pageHeaderTypeBeginningOfStream != 0
		verif.Assert(bos == (i == 0 && headerType&pageHeaderTypeBeginningOfStream != 0), "bos-only-on-first-page")
		eos := pg.data[5]&pageHeaderTypeEndOfStream != 0
		verif.Assert(eos == (last && headerType&pageHeaderTypeEndOfStream != 0), "eos-only-on-last-page")
		verif.Assert(pg.pageIndex == first+uint32(i), "page-sequence")
		verif.Assert(pg.headerType == pg.data[5], "page-struct-matches-bytes")
	}
	verif.Assert(carried == total, "all-bytes-carried")
	if len(pages) > 1 {
		verif.Reach("multi-page")
	} else {
		verif.Reach("single-page")
	}
}
