//go:build verif

package webrtc

// VerifC09 drives the shared negotiation scenarios (harness/lib/sdpdriver.go.txt)
// and asserts the conditions of property C09 on every description produced.
func VerifC09() { verifSDPDriver(checkC09) }
