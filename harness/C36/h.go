//go:build verif

package rtpdump

import (
	"errors"
	"io"
	"net"
	"time"

	verif "github.com/pion/webrtc/v4/internal/zzverif"
)

// verifSink is an in-memory io.Writer.
type verifSink struct{ data []byte }

func (s *verifSink) Write(p []byte) (int, error) {
	s.data = append(s.data, p...)
	return len(p), nil
}

// verifSrc is an io.Reader delivering data in chunks of at most chunk bytes.
type verifSrc struct {
	data  []byte
	pos   int
	chunk int
}

func (s *verifSrc) Read(p []byte) (int, error) {
	if s.pos >= len(s.data) {
		return 0, io.EOF
	}
	n := len(p)
	if n > s.chunk {
		n = s.chunk
	}
	if n > len(s.data)-s.pos {
		n = len(s.data) - s.pos
	}
	copy(p, s.data[s.pos:s.pos+n])
	s.pos += n
	return n, nil
}

// VerifC36Header: Header.Marshal/Unmarshal round-trips every IPv4 source, port
// and start time representable to the microsecond.
func VerifC36Header() {
	ip := verif.Bytes("ip", 4)
	port := verif.U16("port")
	sec := verif.U32("sec")
	usec := verif.U32("usec")
	verif.Assume(usec < 1000000)

	h := Header{
		Start:  time.Unix(int64(sec), int64(usec)*1000).UTC(),
		Source: net.IPv4(ip[0], ip[1], ip[2], ip[3]),
		Port:   port,
	}
	data, err := h.Marshal()
	verif.Assert(err == nil, "header-marshal-ok")
	verif.Assert(len(data) == headerLen, "header-length")

	var back Header
	err = back.Unmarshal(data)
	verif.Assert(err == nil, "header-unmarshal-ok")
	verif.Assert(back.Port == port, "header-port")
	verif.Assert(back.Start.Unix() == int64(sec), "header-seconds")
	verif.Assert(back.Start.Nanosecond() == int(usec)*1000, "header-microseconds")
	b4 := back.Source.To4()
	verif.Assert(len(b4) == 4 && b4[0] == ip[0] && b4[1] == ip[1] && b4[2] == ip[2] && b4[3] == ip[3], "header-source")
	verif.Reach("header-end")
}

// VerifC36Packets: packets written by Writer are returned by Reader with the
// same offset (ms), RTCP flag, length and bytes.
func VerifC36Packets() {
	hdr := Header{Start: time.Unix(9, 0).UTC(), Source: net.IPv4(2, 2, 2, 2), Port: 2222}
	sink := &verifSink{}
	w, err := NewWriter(sink, hdr)
	verif.Assert(err == nil, "writer-open")

	maxPayload := verif.Param("max_payload", 6)
	npk := verif.Param("packets", 2)
	type rec struct {
		off  uint32
		rtcp bool
		pay  []byte
	}
	var recs []rec
	for i := 0; i < npk; i++ {
		n := 1 + verif.Choice("paylen", maxPayload)
		r := rec{off: verif.U32("offset_ms"), rtcp: verif.Bool("rtcp"), pay: verif.Bytes("pay", n)}
		if i > 0 {
			// distinct names per packet
			r.pay = append([]byte{}, r.pay...)
		}
		recs = append(recs, r)
		err = w.WritePacket(Packet{Offset: time.Duration(r.off) * time.Millisecond, IsRTCP: r.rtcp, Payload: r.pay})
		verif.Assert(err == nil, "write-ok")
	}

	chunk := 1 + verif.Choice("chunk", verif.Param("max_chunk", 3))
	if chunk == verif.Param("max_chunk", 3) {
		chunk = 1 << 20
	}
	rd, gotHdr, err := NewReader(&verifSrc{data: sink.data, chunk: chunk})
	verif.Assert(err == nil, "reader-open")
	verif.Assert(gotHdr.Port == hdr.Port && gotHdr.Start.Equal(hdr.Start), "reader-header")
	for i := 0; i < npk; i++ {
		p, err := rd.Next()
		verif.Assert(err == nil, "read-ok")
		verif.Assert(p.Offset == time.Duration(recs[i].off)*time.Millisecond, "offset-roundtrip")
		verif.Assert(p.IsRTCP == recs[i].rtcp, "rtcp-roundtrip")
		verif.Assert(len(p.Payload) == len(recs[i].pay), "length-roundtrip")
		same := len(p.Payload) == len(recs[i].pay)
		for j := 0; same && j < len(p.Payload); j++ {
			verif.Assert(p.Payload[j] == recs[i].pay[j], "bytes-roundtrip")
		}
	}
	_, err = rd.Next()
	verif.Assert(errors.Is(err, io.EOF), "eof-after-last")
	verif.Reach("packets-end")
}

// VerifC36ShortLength: a record whose length field is smaller than the 8-byte
// record header is rejected by Reader.Next (and by Packet.Unmarshal).
func VerifC36ShortLength() {
	hdr := Header{Start: time.Unix(9, 0).UTC(), Source: net.IPv4(2, 2, 2, 2), Port: 2222}
	sink := &verifSink{}
	_, err := NewWriter(sink, hdr)
	verif.Assert(err == nil, "writer-open")
	length := verif.U16("length")
	verif.Assume(length < 8)
	rec := []byte{byte(length >> 8), byte(length), verif.U8("plen_hi"), verif.U8("plen_lo"), 0, 0, 0, 1}
	// the stream continues with enough bytes to satisfy any 16-bit length: a few
	// symbolic bytes followed by zeros (the content is irrelevant to the length check)
	tail := append(verif.Bytes("tail", verif.Param("tail", 4)), make([]byte, 66000)...)
	data := append(append(append([]byte{}, sink.data...), rec...), tail...)
	rd, _, err := NewReader(&verifSrc{data: data, chunk: 1 << 20})
	verif.Assert(err == nil, "reader-open")
	_, err = rd.Next()
	verif.Key("short-length-rejected", "length", int(length))
	verif.Assert(err != nil, "short-length-rejected")

	var p Packet
	err = p.Unmarshal(append(append([]byte{}, rec...), tail...))
	verif.Key("short-length-rejected-unmarshal", "length", int(length))
	verif.Assert(err != nil, "short-length-rejected-unmarshal")
	verif.Reach("short-end")
}

// VerifC36Oversize: Packet.Marshal / Writer.WritePacket must refuse a payload the
// 16-bit length field cannot represent (more than 65527 bytes) instead of
// writing a record with a wrapped length. The payload length is a solver
// variable in [0, 70000]; its content is irrelevant and left zero.
func VerifC36Oversize() {
	pay := verif.SymLenBytes("n", 70000)
	n := len(pay)
	p := Packet{Offset: time.Millisecond, IsRTCP: verif.Bool("rtcp"), Payload: pay}
	data, err := p.Marshal()
	verif.Key("oversize-refused", "over", 0)
	verif.Assert(!(err == nil && n > 65527), "oversize-refused")
	if err == nil {
		// what was written must describe the payload: length field = n+8
		verif.Assert(len(data) == n+8, "record-size")
		got := int(data[0])<<8 | int(data[1])
		verif.Assert(got == n+8, "length-field-matches")
		verif.Reach("marshal-ok")
	} else {
		verif.Reach("marshal-refused")
	}
}
