//go:build verif

package webrtc

import (
	"errors"
	"sync"

	"github.com/pion/webrtc/v4/pkg/rtcerr"
	verif "github.com/pion/webrtc/v4/internal/zzverif"
)

func verifC21Invalid(err error) bool {
	var ise *rtcerr.InvalidStateError
	return errors.As(err, &ise)
}

// VerifC21: a real PeerConnection is brought to one of three points of setup,
// then 1..max_closers goroutines call Close or GracefulClose (each arbitrary),
// optionally while the ICE transport reports a state change; every interleaving
// within the preemption bound is explored. All calls must return, the state is
// final, and every mutating call afterwards fails with InvalidStateError.
func VerifC21() { verifC21() }

// VerifC21Three: three closers (each Close or GracefulClose) on a connection with
// a local offer applied; explored without preemptions (every order in which the
// closers and the operations worker run between blocking points).
func VerifC21Three() { verifC21() }

func verifC21() {
	verif.Preemptible(false) // setup is sequential
	// scenario: point of setup, number of closers, whether ICE reports a change meanwhile
	scenarios := [][3]int{{0, 1, 1}, {2, 1, 1}, {1, 2, 0}, {0, 2, 0}, {2, 2, 0}, {1, 1, 1}, {2, 2, 1}, {1, 3, 0}}
	sc := scenarios[verif.Choice("scenario", verif.Param("scenarios", 3))]
	if verif.Param("three_closers", 0) == 1 {
		sc = [3]int{1, 3, 0}
	}
	stage := sc[0]
	pc := verifNewPC(SettingEngine{}, Configuration{})
	var peer *PeerConnection
	defer func() {
		if !verif.Symbolic() && peer != nil {
			_ = peer.Close()
		}
	}()
	var mu sync.Mutex
	var reported []PeerConnectionState
	pc.OnConnectionStateChange(func(s PeerConnectionState) {
		mu.Lock()
		reported = append(reported, s)
		mu.Unlock()
	})

	track, terr := NewTrackLocalStaticSample(RTPCodecCapability{MimeType: MimeTypeVP8}, "track", "stream")
	verif.Assert(terr == nil, "setup")
	var sender *RTPSender
	var offer SessionDescription
	if stage >= 1 {
		var err error
		_, err = pc.CreateDataChannel("dc", nil)
		verif.Assert(err == nil, "setup")
		sender, err = pc.AddTrack(track)
		verif.Assert(err == nil, "setup")
		offer, err = pc.CreateOffer(nil)
		verif.Assert(err == nil, "setup")
		verif.Assert(pc.SetLocalDescription(offer) == nil, "setup")
	}
	if stage >= 2 {
		peer = verifNewPC(SettingEngine{}, Configuration{})
		verif.Assert(peer.SetRemoteDescription(offer) == nil, "setup")
		answer, err := peer.CreateAnswer(nil)
		verif.Assert(err == nil, "setup")
		verif.Assert(peer.SetLocalDescription(answer) == nil, "setup")
		verif.Assert(pc.SetRemoteDescription(answer) == nil, "setup")
	}
	verif.Settle()

	n := sc[1]
	// an operation is still queued when the closers start
	if verif.Param("three_closers", 0) == 1 {
		pc.ops.Enqueue(func() { verif.Yield() })
	}
	verif.Preemptible(true)
	anyGraceful := false
	var wg sync.WaitGroup
	errs := make([]error, n)
	for i := 0; i < n; i++ {
		graceful := verif.Choice("graceful", 2) == 1
		anyGraceful = anyGraceful || graceful
		wg.Add(1)
		go func(i int, graceful bool) {
			defer wg.Done()
			if graceful {
				errs[i] = pc.GracefulClose()
				// the operations worker is one of the goroutines GracefulClose waits for
				pc.ops.mu.Lock()
				verif.Assert(pc.ops.busyCh == nil, "no-operations-worker-after-graceful-close")
				verif.Assert(pc.ops.ops.Len() == 0, "no-operations-worker-after-graceful-close")
				pc.ops.mu.Unlock()
			} else {
				errs[i] = pc.Close()
			}
		}(i, graceful)
	}
	if sc[2] == 1 {
		wg.Add(1)
		go func() {
			defer wg.Done()
			// what the ICE agent's state callback does (ICETransport.onConnectionStateChange)
			pc.iceTransport.onConnectionStateChange(ICETransportStateChecking)
		}()
	}
	wg.Wait()
	verif.Preemptible(false)
	verif.Settle()

	for i := 0; i < n; i++ {
		verif.Assert(errs[i] == nil, "close-returns-nil")
	}
	verif.Assert(pc.SignalingState() == SignalingStateClosed, "signaling-state-closed")
	verif.Assert(pc.ConnectionState() == PeerConnectionStateClosed, "connection-state-closed")
	mu.Lock()
	seenClosed := false
	for _, s := range reported {
		if seenClosed {
			verif.Assert(s == PeerConnectionStateClosed, "no-state-reported-after-closed")
		}
		if s == PeerConnectionStateClosed {
			seenClosed = true
		}
	}
	mu.Unlock()
	verif.Assert(seenClosed, "closed-reported")
	if anyGraceful {
		pc.ops.mu.Lock()
		verif.Assert(pc.ops.busyCh == nil, "no-operations-worker-after-graceful-close")
		verif.Assert(pc.ops.ops.Len() == 0, "no-operations-worker-after-graceful-close")
		pc.ops.mu.Unlock()
	}

	// every call that would change negotiation state is refused
	_, err := pc.CreateOffer(nil)
	verif.Assert(verifC21Invalid(err), "create-offer-refused")
	_, err = pc.CreateAnswer(nil)
	verif.Assert(verifC21Invalid(err), "create-answer-refused")
	verif.Assert(verifC21Invalid(pc.SetLocalDescription(SessionDescription{Type: SDPTypeOffer, SDP: offer.SDP})), "set-local-refused")
	verif.Assert(verifC21Invalid(pc.SetRemoteDescription(SessionDescription{Type: SDPTypeOffer, SDP: offer.SDP})), "set-remote-refused")
	verif.Assert(verifC21Invalid(pc.SetLocalDescription(SessionDescription{Type: SDPTypeRollback})), "set-local-refused")
	_, err = pc.AddTrack(track)
	verif.Assert(verifC21Invalid(err), "add-track-refused")
	if sender != nil {
		verif.Assert(verifC21Invalid(pc.RemoveTrack(sender)), "remove-track-refused")
	}
	_, err = pc.AddTransceiverFromKind(RTPCodecTypeVideo)
	verif.Assert(verifC21Invalid(err), "add-transceiver-refused")
	_, err = pc.AddTransceiverFromTrack(track)
	verif.Assert(verifC21Invalid(err), "add-transceiver-refused")
	_, err = pc.CreateDataChannel("late", nil)
	verif.Assert(verifC21Invalid(err), "create-data-channel-refused")
	verif.Assert(verifC21Invalid(pc.SetConfiguration(Configuration{})), "set-configuration-refused")
	verif.Assert(pc.SignalingState() == SignalingStateClosed, "signaling-state-closed")
	verif.Assert(pc.ConnectionState() == PeerConnectionStateClosed, "connection-state-closed")

	// closing again is a no-op that still returns
	verif.Assert(pc.Close() == nil, "close-returns-nil")
	verif.Assert(pc.GracefulClose() == nil, "close-returns-nil")
	verif.Reach("done")
}
