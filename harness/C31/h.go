//go:build verif

package samplebuilder

import (
	verif "github.com/pion/webrtc/v4/internal/zzverif"
)

// VerifC31Distance: seqnumDistance / timestampDistance are the circular distance.
func VerifC31Distance() {
	x, y := verif.U16("x"), verif.U16("y")
	d := seqnumDistance(x, y)
	fwd := y - x // modular
	bwd := x - y
	want := fwd
	if bwd < fwd {
		want = bwd
	}
	verif.Assert(d == want, "seqnum-circular-distance")
	verif.Assert(d == seqnumDistance(y, x), "seqnum-symmetric")
	verif.Assert(d <= 0x8000, "seqnum-bounded")

	a, b := verif.U32("a"), verif.U32("b")
	t := timestampDistance(a, b)
	f32, b32 := b-a, a-b
	w32 := f32
	if b32 < f32 {
		w32 = b32
	}
	verif.Assert(t == w32, "timestamp-circular-distance")
	verif.Assert(t == timestampDistance(b, a), "timestamp-symmetric")
	verif.Reach("distance-end")
}

// VerifC31Location: compare/count/empty of a circular [head,tail) window against
// modular arithmetic: pos is inside exactly when (pos-head) mod 2^16 < (tail-head) mod 2^16.
func VerifC31Location() {
	l := sampleSequenceLocation{head: verif.U16("head"), tail: verif.U16("tail")}
	pos := verif.U16("pos")
	size := l.tail - l.head // modular window size
	verif.Assert(l.empty() == (size == 0), "empty-iff-size-zero")
	verif.Assert(l.hasData() == (size != 0), "hasdata")
	c := l.compare(pos)
	if size == 0 {
		verif.Assert(c == slCompareVoid, "void-when-empty")
		verif.Reach("void")
		return
	}
	inside := pos-l.head < size
	verif.Assert((c == slCompareInside) == inside, "inside-iff-modular")
	verif.Assert(c == slCompareInside || c == slCompareBefore || c == slCompareAfter, "compare-range")
	if !inside {
		// outside: "before" means head is at most as far ahead of pos as pos is past tail
		// (the tie is left to the implementation)
		ahead := l.head - pos
		past := pos - l.tail
		if ahead < past {
			verif.Assert(c == slCompareBefore, "before-when-closer-to-head")
		}
		if past < ahead {
			verif.Assert(c == slCompareAfter, "after-when-closer-to-tail")
		}
		verif.Reach("outside")
	} else {
		verif.Reach("inside")
	}
	// count is the circular distance between head and tail
	cnt := l.count()
	other := l.head - l.tail
	wantCnt := size
	if other < size {
		wantCnt = other
	}
	verif.Assert(cnt == wantCnt, "count-is-circular-distance")
}
