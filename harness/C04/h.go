//go:build verif

package webrtc

import (
	"github.com/pion/sdp/v3"
	verif "github.com/pion/webrtc/v4/internal/zzverif"
)

func verifC04Section(d *sdp.SessionDescription, mid string) *sdp.MediaDescription {
	if d == nil {
		return nil
	}
	for _, m := range d.MediaDescriptions {
		if v, n := verifAttr(m, "mid"); n > 0 && v == mid {
			return m
		}
	}
	return nil
}

func verifC04Reverse(d string) string {
	switch d {
	case "sendonly":
		return "recvonly"
	case "recvonly":
		return "sendonly"
	}
	return d
}

// verifC04Needs is the W3C "check if negotiation is needed" algorithm (webrtc-pc
// 4.7.3, steps 3-6, without the stopping/stopped steps pion has no API for),
// written against the public getters.
func verifC04Needs(pc *PeerConnection, channels int) bool {
	local := pc.CurrentLocalDescription()
	if local == nil {
		return true
	}
	lp := verifParse(*local)
	var rp *sdp.SessionDescription
	if r := pc.CurrentRemoteDescription(); r != nil {
		rp = verifParse(*r)
	}
	if channels > 0 {
		found := false
		for _, m := range lp.MediaDescriptions {
			if m.MediaName.Media == "application" {
				found = true
			}
		}
		if !found {
			return true
		}
	}
	for _, t := range pc.GetTransceivers() {
		sec := verifC04Section(lp, t.Mid())
		if t.Mid() == "" || sec == nil {
			return true
		}
		dir := t.Direction().String()
		if dir == "sendrecv" || dir == "sendonly" {
			if s := t.Sender(); s != nil && s.Track() != nil {
				msid, n := verifAttr(sec, "msid")
				if n == 0 || msid != s.Track().StreamID()+" "+s.Track().ID() {
					return true
				}
			}
		}
		secDir, _ := verifDirection(sec)
		if local.Type == SDPTypeOffer {
			rsec := verifC04Section(rp, t.Mid())
			if rsec == nil {
				return true
			}
			rdir, _ := verifDirection(rsec)
			if secDir != dir && rdir != verifC04Reverse(dir) {
				return true
			}
		} else if secDir != dir {
			return true
		}
	}
	return false
}

// VerifC04: sequential histories on a PeerConnection talking to a second real
// PeerConnection; after every call the operations queue drains (Settle) and the
// number of negotiationneeded events since the previous call is compared with
// the W3C update-the-negotiation-needed-flag model.
func VerifC04() {
	a := verifNewPC(SettingEngine{}, Configuration{})
	b := verifNewPC(SettingEngine{}, Configuration{})
	defer func() {
		if !verif.Symbolic() {
			_ = a.Close()
			_ = b.Close()
		}
	}()
	fired := 0
	closed := false
	a.OnNegotiationNeeded(func() {
		fired++
		verif.Assert(a.SignalingState() == SignalingStateStable, "fires-only-in-stable")
		verif.Assert(!closed, "never-fires-after-close")
	})

	flag := false // model of [[NegotiationNeeded]]
	channels := 0
	var senders []*RTPSender
	tracks := 0
	bHasMedia := false
	var pendingOffer SessionDescription

	// histories start fresh, in the middle of a local offer, or after a completed
	// exchange (fixed prefixes), and continue with arbitrary calls
	prefixes := [][]int{{}, {0, 4}, {1, 4, 5}, {3, 6}, {0, 4, 5, 1}}
	prefix := prefixes[verif.Choice("prefix", len(prefixes))]
	steps := verif.Param("steps", 3)
	if len(prefix) > 0 {
		steps += len(prefix) - 1
	}
	for i := 0; i < steps; i++ {
		op := 0
		if i < len(prefix) {
			op = prefix[i]
		} else {
			op = verif.Choice("op", 9)
		}
		before := fired
		stateBefore := a.SignalingState()
		change := false
		switch op {
		case 0:
			_, err := a.AddTransceiverFromKind(RTPCodecTypeVideo, RTPTransceiverInit{Direction: RTPTransceiverDirectionRecvonly})
			if (err != nil) != closed {
				return // a failing set-up call is not this property's subject
			}
			change = true
		case 1:
			tracks++
			id := "track" + string(rune('0'+tracks))
			track, terr := NewTrackLocalStaticSample(RTPCodecCapability{MimeType: MimeTypeVP8}, id, "stream")
			verif.Assert(terr == nil, "setup")
			s, err := a.AddTrack(track)
			if (err != nil) != closed {
				return // a failing set-up call is not this property's subject
			}
			if err == nil {
				senders = append(senders, s)
			}
			change = true
		case 2:
			if len(senders) == 0 {
				verif.Reach("skipped")
				return
			}
			s := senders[len(senders)-1]
			senders = senders[:len(senders)-1]
			err := a.RemoveTrack(s)
			if (err != nil) != closed {
				return // a failing set-up call is not this property's subject
			}
			change = true
		case 3:
			_, err := a.CreateDataChannel("dc", nil)
			if (err != nil) != closed {
				return // a failing set-up call is not this property's subject
			}
			if err == nil {
				channels++
			}
			change = true
		case 4: // local offer
			if closed || stateBefore != SignalingStateStable || (len(a.GetTransceivers()) == 0 && channels == 0) {
				verif.Reach("skipped")
				return
			}
			offer, err := a.CreateOffer(nil)
			verif.Assert(err == nil, "setup")
			verif.Assert(a.SetLocalDescription(offer) == nil, "setup")
			pendingOffer = offer
		case 5: // the peer answers
			if closed || stateBefore != SignalingStateHaveLocalOffer {
				verif.Reach("skipped")
				return
			}
			verif.Assert(b.SetRemoteDescription(pendingOffer) == nil, "setup")
			answer, err := b.CreateAnswer(nil)
			verif.Assert(err == nil, "setup")
			verif.Assert(b.SetLocalDescription(answer) == nil, "setup")
			verif.Assert(a.SetRemoteDescription(answer) == nil, "setup")
			bHasMedia = true
		case 6: // the peer offers
			if closed || stateBefore != SignalingStateStable || b.SignalingState() != SignalingStateStable {
				verif.Reach("skipped")
				return
			}
			if !bHasMedia {
				_, err := b.AddTransceiverFromKind(RTPCodecTypeVideo)
				verif.Assert(err == nil, "setup")
				bHasMedia = true
			}
			offer, err := b.CreateOffer(nil)
			verif.Assert(err == nil, "setup")
			verif.Assert(b.SetLocalDescription(offer) == nil, "setup")
			verif.Assert(a.SetRemoteDescription(offer) == nil, "setup")
		case 7: // answer the peer's offer
			if closed || stateBefore != SignalingStateHaveRemoteOffer {
				verif.Reach("skipped")
				return
			}
			answer, err := a.CreateAnswer(nil)
			verif.Assert(err == nil, "setup")
			verif.Assert(a.SetLocalDescription(answer) == nil, "setup")
			verif.Assert(b.SetRemoteDescription(answer) == nil, "setup")
		default:
			verif.Assert(a.Close() == nil, "close-ok")
			closed = true
		}
		verif.Settle()
		delta := fired - before
		stateAfter := a.SignalingState()
		verif.Key("event-count", "op", op)
		verif.Key("event-count", "state_before", int(stateBefore))
		switch {
		case closed:
			verif.Assert(delta == 0, "event-count")
		case change && stateBefore == SignalingStateStable:
			want := 0
			if !verifC04Needs(a, channels) {
				flag = false
			} else if !flag {
				flag = true
				want = 1
			}
			verif.Assert(delta == want, "event-count")
		case !change && stateBefore != SignalingStateStable && stateAfter == SignalingStateStable:
			// an offer/answer exchange completed: the flag is cleared and re-evaluated
			want := 0
			flag = verifC04Needs(a, channels)
			if flag {
				want = 1
			}
			verif.Assert(delta == want, "event-count")
		default:
			// changes outside stable and the first half of an exchange never fire
			verif.Assert(delta == 0, "event-count")
		}
	}
	verif.Reach("done")
}
