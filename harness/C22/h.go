//go:build verif

package webrtc

import (
	"sync/atomic"

	verif "github.com/pion/webrtc/v4/internal/zzverif"
)

type verifNopLogger struct{}

func (verifNopLogger) Trace(string)                  {}
func (verifNopLogger) Tracef(string, ...interface{}) {}
func (verifNopLogger) Debug(string)                  {}
func (verifNopLogger) Debugf(string, ...interface{}) {}
func (verifNopLogger) Info(string)                   {}
func (verifNopLogger) Infof(string, ...interface{})  {}
func (verifNopLogger) Warn(string)                   {}
func (verifNopLogger) Warnf(string, ...interface{})  {}
func (verifNopLogger) Error(string)                  {}
func (verifNopLogger) Errorf(string, ...interface{}) {}

// verifW3CAggregate is the RTCPeerConnectionState algorithm written from the
// W3C text (webrtc-pc, "RTCPeerConnectionState Enum"), for one ICE and one DTLS transport.
func verifW3CAggregate(closed bool, ice ICEConnectionState, dtls DTLSTransportState) PeerConnectionState {
	if closed {
		return PeerConnectionStateClosed
	}
	if ice == ICEConnectionStateFailed || dtls == DTLSTransportStateFailed {
		return PeerConnectionStateFailed
	}
	if ice == ICEConnectionStateDisconnected {
		return PeerConnectionStateDisconnected
	}
	iceNewOrClosed := ice == ICEConnectionStateNew || ice == ICEConnectionStateClosed
	dtlsNewOrClosed := dtls == DTLSTransportStateNew || dtls == DTLSTransportStateClosed
	if iceNewOrClosed && dtlsNewOrClosed {
		return PeerConnectionStateNew
	}
	iceDone := ice == ICEConnectionStateConnected || ice == ICEConnectionStateCompleted || ice == ICEConnectionStateClosed
	dtlsDone := dtls == DTLSTransportStateConnected || dtls == DTLSTransportStateClosed
	if iceDone && dtlsDone {
		return PeerConnectionStateConnected
	}
	return PeerConnectionStateConnecting
}

// VerifC22Aggregate: for every closed flag, ICE state, DTLS state and previous
// connection state, updateConnectionState leaves ConnectionState() equal to the
// W3C aggregate and fires the handler exactly when the state changed.
func VerifC22Aggregate() {
	closed := verif.Bool("closed")
	ice := ICEConnectionState(verif.IntRange("ice", int(ICEConnectionStateNew), int(ICEConnectionStateClosed)))
	dtls := DTLSTransportState(verif.IntRange("dtls", int(DTLSTransportStateNew), int(DTLSTransportStateFailed)))
	prev := PeerConnectionState(verif.IntRange("prev", int(PeerConnectionStateNew), int(PeerConnectionStateClosed)))
	hasHandler := verif.Bool("has_handler")

	pc := &PeerConnection{isClosed: &atomic.Bool{}, log: verifNopLogger{}}
	pc.isClosed.Store(closed)
	pc.connectionState.Store(prev)
	fired := 0
	var last PeerConnectionState
	if hasHandler {
		pc.OnConnectionStateChange(func(s PeerConnectionState) {
			fired++
			last = s
		})
	}

	pc.updateConnectionState(ice, dtls)
	verif.Settle()

	want := verifW3CAggregate(closed, ice, dtls)
	verif.Key("aggregate", "ice", int(ice))
	verif.Key("aggregate", "dtls", int(dtls))
	verif.Assert(pc.ConnectionState() == want, "aggregate")
	if hasHandler {
		verif.Assert((fired == 1) == (want != prev), "fires-iff-changed")
		verif.Assert(fired <= 1, "fires-at-most-once")
		if fired == 1 {
			verif.Reach("handler-fired")
			verif.Assert(last == want, "handler-sees-new-state")
		} else {
			verif.Reach("handler-silent")
		}
	}
	verif.Reach("end")
}
