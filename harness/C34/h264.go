//go:build verif

package h264reader

import (
	"errors"
	"io"

	verif "github.com/pion/webrtc/v4/internal/zzverif"
)

type verifSrc struct {
	data  []byte
	pos   int
	chunk int
}

func (s *verifSrc) Read(p []byte) (int, error) {
	if s.pos >= len(s.data) {
		return 0, io.EOF
	}
	n := len(p)
	if n > s.chunk {
		n = s.chunk
	}
	if n > len(s.data)-s.pos {
		n = len(s.data) - s.pos
	}
	copy(p, s.data[s.pos:s.pos+n])
	s.pos += n
	return n, nil
}

// verifIsSEI classifies a unit from its header byte (written from the codec spec,
// not from the reader's code).
func verifIsSEI(u []byte) bool {
	return u[0]&0x1F == 6 // H.264 nal_unit_type 6 = SEI
}

// VerifC34H264: for every sequence of up to max_units NAL units of 1..max_len
// arbitrary bytes (no emulated start code inside, last byte non-zero) framed
// with 3- or 4-byte start codes and delivered in arbitrary chunk sizes, the
// reader returns exactly those units in order (SEI skipped when excluded),
// with header fields equal to the bits of the header bytes, then io.EOF.
func VerifC34H264() {
	k := 1 + verif.Choice("units", verif.Param("max_units", 2))
	maxLen := verif.Param("max_len", 3)
	includeSEI := verif.Bool("include_sei")
	var stream []byte
	var units [][]byte
	for i := 0; i < k; i++ {
		n := 1 + verif.Choice("len", maxLen-1+1)
		u := verif.Bytes("nal", n)
		// no emulated start code (00 00 00 / 00 00 01) inside, no trailing zero byte
		for j := 0; j+2 < n; j++ {
			verif.Assume(!(u[j] == 0 && u[j+1] == 0 && u[j+2] <= 1))
		}
		verif.Assume(u[n-1] != 0)
		if verif.Bool("wide") {
			stream = append(stream, 0)
		}
		stream = append(stream, 0, 0, 1)
		stream = append(stream, u...)
		units = append(units, u)
	}
	chunk := 1 + verif.Choice("chunk", verif.Param("max_chunk", 3))
	if chunk == verif.Param("max_chunk", 3) {
		chunk = 1 << 20
	}
	r, err := NewReaderWithOptions(&verifSrc{data: stream, chunk: chunk}, WithIncludeSEI(includeSEI))
	verif.Assert(err == nil, "reader-open")

	for i := 0; i < k; i++ {
		u := units[i]
		if !includeSEI && verifIsSEI(u) {
			verif.Reach("sei-skipped")
			continue
		}
		nal, err := r.NextNAL()
		verif.KeyBool("unit-returned", "last", i == k-1)
		verif.Assert(err == nil && nal != nil, "unit-returned")
		if err != nil || nal == nil {
			return
		}
		verif.KeyBool("unit-length", "last", i == k-1)
		verif.KeyBool("unit-length", "prev_sei", i > 0 && verifIsSEI(units[i-1]))
		verif.Assert(len(nal.Data) == len(u), "unit-length")
		if len(nal.Data) != len(u) {
			return
		}
		for j := range u {
			verif.Assert(nal.Data[j] == u[j], "unit-bytes")
		}
		verif.Assert(nal.ForbiddenZeroBit == (u[0]&0x80 != 0), "hdr-forbidden")
		verif.Assert(nal.RefIdc == (u[0]>>5)&3, "hdr-refidc")
		verif.Assert(uint8(nal.UnitType) == u[0]&0x1F, "hdr-type")
	}
	nal, err := r.NextNAL()
	verif.KeyBool("eof-after-last", "last_is_sei", verifIsSEI(units[k-1]))
	verif.KeyBool("eof-after-last", "include_sei", includeSEI)
	verif.Assert(nal == nil && errors.Is(err, io.EOF), "eof-after-last")
	verif.Reach("end")
}
