//go:build verif

package webrtc

import (
	"errors"
	"sync"

	"github.com/pion/interceptor"
	verif "github.com/pion/webrtc/v4/internal/zzverif"
)

// verifRepairReader is the repair stream: it delivers one packet, then an error.
type verifRepairReader struct {
	pkt  []byte
	done bool
}

func (r *verifRepairReader) Read(b []byte, a interceptor.Attributes) (int, interceptor.Attributes, error) {
	if r.done {
		return 0, nil, errors.New("repair stream closed")
	}
	r.done = true
	return copy(b, r.pkt), a, nil
}

const verifMTU = 200

func verifReceiver(pkt []byte, pt PayloadType, ssrc SSRC) (*RTPReceiver, *TrackRemote) {
	recv := &RTPReceiver{kind: RTPCodecTypeVideo, closedChan: make(chan any), received: make(chan any)}
	close(recv.received)
	recv.rtxPool = sync.Pool{New: func() any { return make([]byte, verifMTU) }}
	track := newTrackRemote(RTPCodecTypeVideo, ssrc, 4242, "", recv)
	track.payloadType = pt
	recv.tracks = []trackStreams{{
		track:                        track,
		repairInterceptor:            &verifRepairReader{pkt: pkt},
		repairStreamChannel:          make(chan rtxPacketWithAttributes, 50),
		startRepairReaderImmediately: true,
	}}
	recv.mu.Lock()
	recv.maybeStartRepairStreamReader(&recv.tracks[0])
	recv.mu.Unlock()
	verif.Settle() // the repair goroutine reads the packet, unwraps it, hits the closed stream and ends
	return recv, track
}

// VerifC26Unwrap: a well-formed RTX packet (RFC 3550 header with 0..max_cc CSRCs,
// optional header extension of 0..1 words, optional padding) carrying an OSN and
// 0..max_body payload bytes is delivered by TrackRemote.Read with sequence
// number = OSN, the primary SSRC and payload type, the payload without the OSN
// and every other header byte unchanged.
func VerifC26Unwrap() {
	cc := verif.Choice("cc", verif.Param("max_cc", 2)+1)
	hasExt := verif.Bool("x")
	extWords := 0
	if hasExt {
		extWords = verif.Choice("ext_words", verif.Param("max_ext_words", 1)+1)
	}
	hasPad := verif.Bool("p")
	padLen := 0
	if hasPad {
		padLen = 1 + verif.Choice("pad_len", verif.Param("max_pad", 3))
	}
	body := verif.Choice("body", verif.Param("max_body", 3)+1)

	hdrLen := 12 + 4*cc
	if hasExt {
		hdrLen += 4 + 4*extWords
	}
	total := hdrLen + 2 + body + padLen
	pkt := verif.Bytes("pkt", total)
	// fixed fields that define the structure; everything else stays symbolic
	b0 := byte(0x80) | byte(cc)
	if hasExt {
		b0 |= 0x10
	}
	if hasPad {
		b0 |= 0x20
	}
	pkt[0] = b0
	if hasExt {
		pkt[12+4*cc+2] = 0
		pkt[12+4*cc+3] = byte(extWords)
	}
	if hasPad {
		pkt[total-1] = byte(padLen)
	}
	orig := append([]byte{}, pkt...)
	pt := PayloadType(verif.U8("track_pt") & 0x7f)
	ssrc := SSRC(verif.U32("track_ssrc"))

	_, track := verifReceiver(pkt, pt, ssrc)
	buf := make([]byte, verifMTU)
	n, attr, err := track.Read(buf)
	verif.Assert(err == nil, "read-ok")
	verif.Assert(n == total-2, "length-minus-osn")
	if err != nil || n != total-2 {
		return
	}
	out := buf[:n]
	verif.Assert(out[0] == orig[0], "first-byte-unchanged")
	verif.Assert(out[1] == (orig[1]&0x80)|uint8(pt), "marker-kept-payload-type-rewritten")
	verif.Assert(out[2] == orig[hdrLen] && out[3] == orig[hdrLen+1], "sequence-number-is-osn")
	for i := 4; i < 8; i++ {
		verif.Assert(out[i] == orig[i], "timestamp-unchanged")
	}
	verif.Assert(out[8] == byte(ssrc>>24) && out[9] == byte(ssrc>>16) && out[10] == byte(ssrc>>8) && out[11] == byte(ssrc), "ssrc-is-primary")
	for i := 12; i < hdrLen; i++ {
		verif.Assert(out[i] == orig[i], "csrc-and-extension-unchanged")
	}
	for i := hdrLen; i < n; i++ {
		verif.Assert(out[i] == orig[i+2], "payload-without-osn")
	}
	verif.Assert(attr.Get(AttributeRtxSequenceNumber) == uint16(orig[2])<<8|uint16(orig[3]), "rtx-seq-attribute")
	verif.Assert(attr.Get(AttributeRtxPayloadType) == orig[1]&0x7f, "rtx-pt-attribute")
	verif.Reach("unwrapped")
}

// VerifC26Short: RTX packets too short to carry an OSN are dropped (Read falls
// through to the primary stream, which is closed here) and arbitrary bytes of
// length 12..max_arbitrary never crash the repair reader.
func VerifC26Short() {
	total := 12 + verif.Choice("len", verif.Param("max_arbitrary", 20)-11)
	pkt := verif.Bytes("pkt", total)
	recv, track := verifReceiver(pkt, 96, 1234)
	// structure as the code computes it, to know whether an OSN fits
	cc := int(pkt[0] & 0x0f)
	verif.Assume(cc <= 1)
	hl := 12 + 4*cc
	if pkt[0]&0x10 != 0 {
		if hl+4 > total {
			// extension flag without room for the extension header: the code reads stale
			// buffer bytes; nothing is asserted beyond the absence of a crash
			verif.Reach("truncated-extension")
			return
		}
		verif.Assume(pkt[hl+2] == 0)
		verif.Assume(pkt[hl+3] <= 1)
		hl += 4 + 4*int(pkt[hl+3])
	}
	pad := 0
	if pkt[0]&0x20 != 0 {
		pad = int(pkt[total-1])
	}
	fits := total-hl-pad >= 2
	recv.mu.RLock()
	queued := len(recv.tracks[0].repairStreamChannel)
	recv.mu.RUnlock()
	verif.Assert((queued == 1) == fits, "queued-iff-osn-fits")
	_ = track
	if fits {
		verif.Reach("fits")
	} else {
		verif.Reach("dropped")
	}
}
