//go:build verif

package webrtc

import (
	"errors"

	"github.com/pion/datachannel"
	"github.com/pion/sctp"
	verif "github.com/pion/webrtc/v4/internal/zzverif"
)

// verifDial stands for datachannel.Dial (needs a live SCTP association): it fails
// after the stream id has been chosen, which is all the property looks at.
func verifDial(a *sctp.Association, id uint16, cfg *datachannel.Config) (*datachannel.DataChannel, error) {
	return nil, errors.New("verif: no association")
}

// VerifC18Pending: channels created before SCTP is connected are opened later, in
// creation order, the way SCTPTransport.Start does. Some have an explicitly
// requested id, some get one assigned: all ids of one connection are distinct and
// an explicit id is never changed.
func VerifC18Pending() {
	pc := verifNewPC(SettingEngine{}, Configuration{})
	n := 2 + verif.Choice("channels", verif.Param("max_channels", 3)-1)
	var chans []*DataChannel
	var explicit []int
	for i := 0; i < n; i++ {
		var init *DataChannelInit
		want := -1
		if verif.Bool("explicit_id") {
			id := uint16(verif.Choice("id", verif.Param("max_explicit_id", 4)))
			neg := true
			init = &DataChannelInit{ID: &id, Negotiated: &neg}
			want = int(id)
			for _, e := range explicit {
				verif.Assume(e != want) // the application does not request one id twice
			}
		}
		dc, err := pc.CreateDataChannel("dc", init)
		verif.Assert(err == nil && dc != nil, "create-data-channel")
		if err != nil {
			return
		}
		chans = append(chans, dc)
		explicit = append(explicit, want)
	}
	// SCTP comes up: the pending channels are opened in creation order
	tr := pc.sctpTransport
	tr.lock.Lock()
	tr.sctpAssociation = &sctp.Association{}
	pending := append([]*DataChannel{}, tr.dataChannels...)
	tr.lock.Unlock()
	for _, d := range pending {
		_ = d.open(tr) // the replaced Dial fails after the id was chosen
	}
	for i, d := range chans {
		verif.Assert(d.ID() != nil, "every-channel-has-an-id")
		if d.ID() == nil {
			return
		}
		if explicit[i] >= 0 {
			verif.Assert(int(*d.ID()) == explicit[i], "explicit-id-unchanged")
		}
		for j := 0; j < i; j++ {
			verif.KeyBool("ids-distinct", "one_explicit", (explicit[i] >= 0) != (explicit[j] >= 0))
			verif.Assert(*chans[j].ID() != *d.ID(), "ids-distinct")
		}
		verif.Assert(*d.ID() != 65535, "id-not-65535")
	}
	verif.Reach("pending-end")
}
