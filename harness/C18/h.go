//go:build verif

package webrtc

import (
	verif "github.com/pion/webrtc/v4/internal/zzverif"
)

// verifRoleParity: RFC 8832 section 6: the DTLS client uses even stream
// identifiers, the server odd ones.
func verifRoleParity(role DTLSRole, id uint16) bool {
	if role == DTLSRoleClient {
		return id%2 == 0
	}
	if role == DTLSRoleServer {
		return id%2 == 1
	}
	return true // no rule stated for an undetermined role
}

// VerifC18Generate: one id assignment from an arbitrary set of ids already in
// use, for every DTLS role and every channel limit 0..max_limit: on success the
// id has the parity of the role, is below the limit, is not 65535, was not in
// use, and the set afterwards is the old set plus that id; on failure the set is
// unchanged. A second assignment yields a different id.
func VerifC18Generate() {
	limit := uint16(verif.IntRange("max_channels", 1, verif.Param("max_limit", 18))) // 0 is not a reachable limit (updateMaxChannels always stores 65535)
	role := DTLSRole(verif.IntRange("role", int(DTLSRoleAuto), int(DTLSRoleServer)))
	tr := &SCTPTransport{dataChannelIDsUsed: verif.SymSet16("used", 32), maxChannels: &limit}
	pre := verif.SetSnapshot16(tr.dataChannelIDsUsed)
	witness := verif.U16("witness") // an arbitrary id, to compare the sets element-wise

	var id *uint16
	err := tr.generateAndSetDataChannelID(role, &id)
	_, wPre := pre[witness]
	_, wPost := tr.dataChannelIDsUsed[witness]
	if err != nil {
		verif.Assert(id == nil, "failure-assigns-nothing")
		verif.Assert(wPre == wPost, "failure-leaves-set-unchanged")
		verif.Reach("generate-failed")
		return
	}
	verif.Assert(id != nil, "success-assigns-id")
	if id == nil {
		return
	}
	got := *id
	verif.Key("id-parity-follows-role", "role", int(role))
	verif.Assert(verifRoleParity(role, got), "id-parity-follows-role")
	verif.Assert(got != 65535, "id-not-65535")
	verif.Assert(got < limit, "id-below-limit")
	_, was := pre[got]
	verif.Assert(!was, "id-was-free")
	verif.Assert(wPost == (wPre || witness == got), "set-is-old-set-plus-id")

	var id2 *uint16
	if tr.generateAndSetDataChannelID(role, &id2) == nil && id2 != nil {
		verif.Assert(*id2 != got, "second-id-differs")
		verif.Assert(verifRoleParity(role, *id2), "id-parity-follows-role")
		verif.Assert(*id == got, "first-id-unchanged")
		verif.Reach("second-generated")
	}
	verif.Reach("generated")
}

// VerifC18Remote: a channel opened by the remote peer (any id) is recorded, so a
// later local assignment never collides with it.
func VerifC18Remote() {
	limit := uint16(verif.IntRange("max_channels", 2, verif.Param("max_limit", 18)))
	role := DTLSRole(verif.IntRange("role", int(DTLSRoleClient), int(DTLSRoleServer)))
	tr := &SCTPTransport{dataChannelIDsUsed: verif.SymSet16("used", 32), maxChannels: &limit, log: verifC18Logger{}}
	remoteID := verif.U16("remote_id")
	dc := &DataChannel{id: &remoteID}
	done := tr.onDataChannel(dc)
	<-done
	var id *uint16
	if tr.generateAndSetDataChannelID(role, &id) == nil && id != nil {
		verif.Assert(*id != remoteID, "local-id-differs-from-remote-id")
		verif.Reach("remote-then-local")
	}
	verif.Assert(*dc.ID() == remoteID, "remote-id-unchanged")
}

type verifC18Logger struct{}

func (verifC18Logger) Trace(string)                  {}
func (verifC18Logger) Tracef(string, ...interface{}) {}
func (verifC18Logger) Debug(string)                  {}
func (verifC18Logger) Debugf(string, ...interface{}) {}
func (verifC18Logger) Info(string)                   {}
func (verifC18Logger) Infof(string, ...interface{})  {}
func (verifC18Logger) Warn(string)                   {}
func (verifC18Logger) Warnf(string, ...interface{})  {}
func (verifC18Logger) Error(string)                  {}
func (verifC18Logger) Errorf(string, ...interface{}) {}
