//go:build verif

package webrtc

import (
	"errors"
	"sort"
	"strconv"
	"strings"

	verif "github.com/pion/webrtc/v4/internal/zzverif"
)

func verifB(b bool) uint64 {
	if b {
		return 1
	}
	return 0
}

// VerifSelfSignaling runs the whole (cur,next,op,type) cube concretely.
func VerifSelfSignaling() {
	for cur := SignalingStateStable; cur <= SignalingStateClosed; cur++ {
		for next := SignalingStateStable; next <= SignalingStateClosed; next++ {
			for op := stateChangeOpSetLocal; op <= stateChangeOpSetRemote; op++ {
				for typ := SDPTypeOffer; typ <= SDPTypeRollback; typ++ {
					got, err := checkNextSignalingState(cur, next, op, typ)
					verif.Observe("st", uint64(got))
					verif.Observe("err", verifB(err != nil))
					if err != nil {
						verif.ObserveStr("msg", err.Error())
					}
				}
			}
		}
	}
}

// VerifSelfEnums exercises String/new* pairs of the enum types.
func VerifSelfEnums() {
	for i := 0; i < 8; i++ {
		verif.ObserveStr("sdptype", SDPType(i).String())
		verif.ObserveStr("sig", SignalingState(i).String())
		verif.ObserveStr("ice", ICEConnectionState(i).String())
		verif.ObserveStr("dtls", DTLSTransportState(i).String())
		verif.ObserveStr("pcs", PeerConnectionState(i).String())
		verif.ObserveStr("dir", RTPTransceiverDirection(i).String())
		verif.Observe("newsdp", uint64(NewSDPType(SDPType(i).String())))
		verif.Observe("newdir", uint64(NewRTPTransceiverDirection(RTPTransceiverDirection(i).String())))
		verif.Observe("newice", uint64(NewICEConnectionState(ICEConnectionState(i).String())))
	}
}

type verifShape interface {
	Area() int
	Name() string
}
type verifRect struct{ w, h int }
type verifSq struct{ s int }

func (r verifRect) Area() int   { return r.w * r.h }
func (r verifRect) Name() string { return "rect" }
func (s *verifSq) Area() int    { return s.s * s.s }
func (s *verifSq) Name() string { return "sq" + strconv.Itoa(s.s) }

var errVerifSentinel = errors.New("sentinel")

type verifWrapErr struct{ inner error }

func (w *verifWrapErr) Error() string { return "wrap(" + w.inner.Error() + ")" }
func (w *verifWrapErr) Unwrap() error { return w.inner }

func verifDivide(a, b int) (res int, err error) {
	defer func() {
		if r := recover(); r != nil {
			err = errVerifSentinel
			res = -1
		}
	}()
	return a / b, nil
}

// VerifSelfLanguage exercises language features the harnesses depend on.
func VerifSelfLanguage() {
	// slices, append aliasing, copy
	a := make([]int, 0, 4)
	a = append(a, 1, 2, 3)
	b := append(a, 4)
	c := append(a, 5)
	verif.Observe("alias", uint64(b[3]))
	verif.Observe("lenc", uint64(len(c)))
	d := make([]int, 2)
	n := copy(d, b[1:])
	verif.Observe("copy", uint64(n*100+d[0]*10+d[1]))
	// maps
	m := map[string]int{}
	for i, w := range strings.Fields("a bb ccc bb a a") {
		m[w] += i + 1
	}
	keys := make([]string, 0, len(m))
	for k := range m {
		keys = append(keys, k)
	}
	sort.Strings(keys)
	for _, k := range keys {
		verif.ObserveStr("key", k)
		verif.Observe("val", uint64(m[k]))
	}
	delete(m, "bb")
	_, ok := m["bb"]
	verif.Observe("deleted", verifB(ok))
	// interfaces, method values, closures
	shapes := []verifShape{verifRect{2, 3}, &verifSq{4}}
	tot := 0
	for _, s := range shapes {
		tot += s.Area()
		verif.ObserveStr("name", s.Name())
		if sq, ok := s.(*verifSq); ok {
			f := sq.Area
			sq.s = 5
			tot += f()
		}
	}
	verif.Observe("tot", uint64(tot))
	acc := 0
	add := func(x int) func() int { return func() int { acc += x; return acc } }
	f1, f2 := add(3), add(4)
	f1()
	f2()
	verif.Observe("acc", uint64(f1()))
	// defer / recover / named results
	r, err := verifDivide(7, 0)
	verif.Observe("div", uint64(int64(r))&0xffff)
	verif.Observe("diverr", verifB(errors.Is(err, errVerifSentinel)))
	r, err = verifDivide(7, 2)
	verif.Observe("div2", uint64(r))
	// errors
	w := &verifWrapErr{inner: errVerifSentinel}
	verif.Observe("is", verifB(errors.Is(w, errVerifSentinel)))
	var target *verifWrapErr
	verif.Observe("as", verifB(errors.As(error(w), &target)))
	verif.ObserveStr("werr", w.Error())
	// integer semantics
	var u8 uint8 = 250
	u8 += 10
	var i8 int8 = 127
	i8++
	verif.Observe("u8", uint64(u8))
	verif.Observe("i8", uint64(uint8(i8)))
	var i32 int32 = -7
	verif.Observe("sdiv", uint64(uint32(i32/2)))
	verif.Observe("srem", uint64(uint32(i32%3)))
	verif.Observe("shr", uint64(uint32(i32>>1)))
	var sh uint = 70
	verif.Observe("bigshift", uint64(uint32(1)<<sh))
	verif.Observe("u16conv", uint64(uint16(i32)))
	// strings
	s := "Hello, Wörld"
	cnt := 0
	for i, r := range s {
		cnt += i + int(r)
	}
	verif.Observe("range", uint64(cnt))
	verif.ObserveStr("upper", strings.ToUpper(s[:5]))
	verif.Observe("idx", uint64(strings.Index(s, "lo,")))
	verif.ObserveStr("bytes", string([]byte(s)[1:4]))
	x, err := strconv.Atoi("12x")
	verif.Observe("atoi", uint64(x))
	verif.Observe("atoierr", verifB(err != nil))
	// arrays are values; struct copy
	type pt struct {
		xs [3]int
		p  *int
	}
	p1 := pt{xs: [3]int{1, 2, 3}}
	p2 := p1
	p2.xs[1] = 9
	verif.Observe("arrcopy", uint64(p1.xs[1]*10+p2.xs[1]))
	// switch with fallthrough and labeled break
	out := 0
outer:
	for i := 0; i < 5; i++ {
		switch {
		case i == 1:
			out += 10
			fallthrough
		case i == 2:
			out += 100
		case i == 4:
			break outer
		default:
			out++
		}
	}
	verif.Observe("switch", uint64(out))
}

// VerifSelfDirections runs the direction helper used by SDP generation.
func VerifSelfDirections() {
	for d := RTPTransceiverDirection(0); d <= RTPTransceiverDirectionInactive; d++ {
		verif.Observe("rev", uint64(d.Revers()))
	}
}
