//go:build verif

package webrtc

import (
	"io"
	"sync"

	"github.com/pion/datachannel"
	verif "github.com/pion/webrtc/v4/internal/zzverif"
)

// The pion/datachannel stream under a DataChannel is replaced by its contract:
// ReadDataChannel blocks until the stream is gone (local Close or the remote's
// reset) and then returns io.EOF; Close makes it go away.
var (
	verifC20Gone     chan struct{}
	verifC20GoneOnce *sync.Once
	verifC20OpenCb   func()

	verifC20Mu    sync.Mutex
	verifC20Trace []DataChannelState
)

func verifC20StreamGone() { verifC20GoneOnce.Do(func() { close(verifC20Gone) }) }

func verifC20DCClose(dc *datachannel.DataChannel) error { verifC20StreamGone(); return nil }
func verifC20DCRead(dc *datachannel.DataChannel, p []byte) (int, bool, error) {
	<-verifC20Gone
	return 0, false, io.EOF
}
func verifC20DCOnOpen(dc *datachannel.DataChannel, f func())              { verifC20OpenCb = f }
func verifC20DCSetThreshold(dc *datachannel.DataChannel, th uint64)       {}
func verifC20DCOnBufferedLow(dc *datachannel.DataChannel, f func())       {}
func verifC20DCWrite(dc *datachannel.DataChannel, p []byte, s bool) (int, error) {
	return len(p), nil
}

// verifC20SetReadyState wraps the real setter (the call below reaches the
// original) and records the state after every set, in the order of the sets.
func verifC20SetReadyState(d *DataChannel, r DataChannelState) {
	verifC20Mu.Lock()
	d.setReadyState(r)
	verifC20Trace = append(verifC20Trace, d.ReadyState())
	verifC20Mu.Unlock()
}

// VerifC20: a data channel created on a real PeerConnection; the SCTP side
// (handleOpen), a local Close or GracefulClose, the remote's close (read loop
// ends with EOF) and PeerConnection.Close run concurrently in the combinations
// of the scenario table.
func VerifC20() {
	if !verif.Symbolic() {
		return // the stream contract is only replaceable under the executor
	}
	verif.Preemptible(false)
	verifC20Gone = make(chan struct{})
	verifC20GoneOnce = &sync.Once{}
	verifC20OpenCb = nil
	verifC20Trace = nil

	// {open before the concurrent phase, opener, closer (0 none, 1 Close, 2 GracefulClose), second closer, remote close, pc.Close}
	scenarios := [][6]int{
		{0, 1, 1, 0, 0, 0}, // opening races with Close
		{1, 0, 1, 0, 1, 0}, // Close races with the remote's close
		{1, 0, 1, 0, 0, 1}, // Close races with PeerConnection.Close
		{0, 1, 0, 0, 0, 1}, // opening races with PeerConnection.Close
		{0, 0, 1, 0, 0, 1}, // never opened: Close races with PeerConnection.Close
		{1, 0, 2, 1, 0, 0}, // GracefulClose races with Close
		{0, 1, 2, 0, 1, 0}, // opening, GracefulClose and the remote's close
		{1, 0, 2, 0, 1, 1}, // GracefulClose, remote close and PeerConnection.Close
	}
	sc := scenarios[verif.Choice("scenario", verif.Param("scenarios", 5))]

	pc := verifNewPC(SettingEngine{}, Configuration{})
	d, err := pc.CreateDataChannel("dc", nil)
	verif.Assert(err == nil, "setup")
	opens, closes := 0, 0
	var hmu sync.Mutex
	d.OnOpen(func() { hmu.Lock(); opens++; hmu.Unlock() })
	d.OnClose(func() { hmu.Lock(); closes++; hmu.Unlock() })
	verif.Assert(d.ReadyState() == DataChannelStateConnecting, "starts-connecting")
	verif.Assert(d.Send([]byte{1}) != nil, "send-refused-unless-open")

	stream := &datachannel.DataChannel{}
	negotiated := verif.Choice("already_negotiated", 2) == 1
	open := func() {
		d.handleOpen(stream, false, negotiated)
		if !negotiated && verifC20OpenCb != nil {
			verifC20OpenCb() // the DCEP ack arrives
		}
	}
	if sc[0] == 1 {
		open()
		verif.Settle()
		verif.Assert(d.ReadyState() == DataChannelStateOpen, "open-after-handle-open")
		verif.Assert(d.Send([]byte{1}) == nil, "send-works-when-open")
	}

	closeCalled := sc[2] != 0 || sc[3] != 0
	verif.Preemptible(true)
	var wg sync.WaitGroup
	run := func(f func()) {
		wg.Add(1)
		go func() { defer wg.Done(); f() }()
	}
	if sc[1] == 1 {
		run(open)
	}
	for _, c := range []int{sc[2], sc[3]} {
		switch c {
		case 1:
			run(func() { verif.Assert(d.Close() == nil, "close-returns-nil") })
		case 2:
			run(func() { verif.Assert(d.GracefulClose() == nil, "close-returns-nil") })
		}
	}
	if sc[4] == 1 {
		run(verifC20StreamGone)
	}
	if sc[5] == 1 {
		run(func() { verif.Assert(pc.Close() == nil, "close-returns-nil") })
	}
	wg.Wait()
	verif.Preemptible(false)
	verif.Settle()

	// readyState only moved forward
	verifC20Mu.Lock()
	last := DataChannelStateConnecting
	for _, s := range verifC20Trace {
		verif.Key("ready-state-forward-only", "from", int(last))
		verif.Key("ready-state-forward-only", "to", int(s))
		verif.Assert(s >= last, "ready-state-forward-only")
		if s > last {
			last = s
		}
	}
	verifC20Mu.Unlock()

	hmu.Lock()
	verif.Assert(opens <= 1, "on-open-at-most-once")
	verif.Assert(closes <= 1, "on-close-at-most-once")
	hmu.Unlock()

	// Close was called and the stream is gone (or the connection closed): closed
	final := d.ReadyState()
	streamGone := false
	select {
	case <-verifC20Gone:
		streamGone = true
	default:
	}
	if sc[5] == 1 || (closeCalled && streamGone) {
		verif.Key("ends-closed", "scenario_close", sc[2])
		verif.Key("ends-closed", "final", int(final))
		verif.Assert(final == DataChannelStateClosed, "ends-closed")
	}
	if final != DataChannelStateOpen {
		verif.Assert(d.Send([]byte{1}) != nil, "send-refused-unless-open")
		verif.Assert(d.SendText("x") != nil, "send-refused-unless-open")
	}
	verif.Reach("done")
}
