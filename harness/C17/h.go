//go:build verif

package fmtp

import (
	verif "github.com/pion/webrtc/v4/internal/zzverif"
)

// verifMixCase returns lit with each ASCII letter's case chosen by a solver bit.
func verifMixCase(tag, lit string) string {
	b := []byte(lit)
	for i := range b {
		if b[i] >= 'a' && b[i] <= 'z' {
			b[i] -= (verif.U8(tag) & 1) << 5
		}
	}
	return string(b)
}

var verifMimes = [...]string{"video/h264", "video/vp9", "video/av1", "video/vp8", "audio/opus", "audio/pcmu"}

// keys that matter to each family plus one that does not
var verifKeys = [...][]string{
	{"packetization-mode", "profile-level-id", "x"},
	{"profile-id", "x"},
	{"profile", "x"},
	{"apt", "x"},
	{"apt", "x"},
	{"apt", "x"},
}

type verifCodec struct {
	family int
	mime   string
	clock  uint32
	ch     uint16
	line   string
}

// verifValue is an arbitrary printable-ASCII value without fmtp separators.
func verifValue(tag string, n int) string {
	b := verif.Bytes(tag, n)
	for i := range b {
		// one comparison per Assume: no short-circuit branches in the harness
		verif.Assume(b[i] < 0x7f) // printable ASCII 0x21..0x7e
		verif.Assume(b[i] > 0x20)
		verif.Assume(b[i] != ';')
		verif.Assume(b[i] != '=')
	}
	return string(b)
}

func verifMakeCodec(tag string, family int) verifCodec {
	c := verifCodec{family: family}
	c.mime = verifMixCase(tag+"_mimecase", verifMimes[family])
	c.clock = verif.U32(tag + "_clock")
	c.ch = verif.U16(tag + "_ch")
	np := verif.Choice(tag+"_nparams", verif.Param("max_params", 2)+1)
	keys := verifKeys[family]
	for p := 0; p < np; p++ {
		k := keys[verif.Choice(tag+"_key", len(keys))]
		key := verifMixCase(tag+"_keycase", k)
		vlen := verif.Choice(tag+"_vlen", verif.Param("max_vlen", 4)+1)
		val := verifValue(tag+"_val", vlen)
		if p > 0 {
			c.line += ";"
		}
		c.line += key + "=" + val
	}
	return c
}

// VerifC17Symmetric: A matches B exactly when B matches A, and neither verdict
// depends on the letter case of the mime types (nor of the parameter names).
func VerifC17Symmetric() {
	fa := verif.Choice("fam_a", len(verifMimes))
	fb := verif.Choice("fam_b", len(verifMimes))
	a := verifMakeCodec("a", fa)
	b := verifMakeCodec("b", fb)

	pa := Parse(a.mime, a.clock, a.ch, a.line)
	pb := Parse(b.mime, b.clock, b.ch, b.line)
	ab := pa.Match(pb)
	ba := pb.Match(pa)
	verif.Key("symmetric", "fam_a", fa)
	verif.Key("symmetric", "fam_b", fb)
	verif.Assert(ab == ba, "symmetric")

	// same descriptions with canonical (lower-case) mime types: same verdict
	la := Parse(verifMimes[fa], a.clock, a.ch, a.line)
	lb := Parse(verifMimes[fb], b.clock, b.ch, b.line)
	verif.Key("case-insensitive", "fam_a", fa)
	verif.Key("case-insensitive", "fam_b", fb)
	verif.Assert(la.Match(lb) == ab, "case-insensitive")
	verif.Assert(la.Match(pb) == ab, "case-insensitive-mixed")
	if ab {
		verif.Reach("matched")
	} else {
		verif.Reach("not-matched")
	}
}

// VerifC17Scalars: clock-rate and channel comparison are symmetric for every value.
func VerifC17Scalars() {
	fa := verif.Choice("fam", len(verifMimes))
	m1 := verifMixCase("c1", verifMimes[fa])
	m2 := verifMixCase("c2", verifMimes[fa])
	x, y := verif.U32("x"), verif.U32("y")
	verif.Assert(ClockRateEqual(m1, x, y) == ClockRateEqual(m2, y, x), "clockrate-symmetric")
	p, q := verif.U16("p"), verif.U16("q")
	verif.Assert(ChannelsEqual(m1, p, q) == ChannelsEqual(m2, q, p), "channels-symmetric")
	verif.Assert(ClockRateEqual(m1, x, x) && ChannelsEqual(m1, p, p), "scalars-reflexive")
	verif.Reach("scalars-end")
}
