//go:build verif

package webrtc

import (
	"strings"

	verif "github.com/pion/webrtc/v4/internal/zzverif"
)

// What startTransports was called with (executor only; natively the real
// startTransports runs and the ICE role is read from the ICETransport).
type verifC13Start struct {
	pc       *PeerConnection
	iceRole  ICERole
	dtlsRole DTLSRole
}

var verifC13Starts []verifC13Start

func verifStartTransportsC13(pc *PeerConnection, iceRole ICERole, dtlsRole DTLSRole, ufrag, pwd, fp, fpHash string) {
	// what ICETransport.Start does with its role argument
	pc.iceTransport.lock.Lock()
	pc.iceTransport.role = iceRole
	pc.iceTransport.lock.Unlock()
	verifC13Starts = append(verifC13Starts, verifC13Start{pc, iceRole, dtlsRole})
}

// verifC13Roles returns the ICE role pc took and the DTLS role its transport
// uses for the handshake (DTLSTransport.prepareStart: remoteParameters are the
// ones startTransports passes, then role()).
func verifC13Roles(pc *PeerConnection, remote *SessionDescription) (ICERole, DTLSRole, bool) {
	remoteRole := dtlsRoleFromSDP(remote.parsed)
	if verif.Symbolic() {
		found := false
		for _, s := range verifC13Starts {
			if s.pc == pc {
				remoteRole = s.dtlsRole
				found = true
			}
		}
		if !found {
			return 0, 0, false
		}
	}
	if !verif.Symbolic() {
		// the real startTransports runs on the operations queue
		for i := 0; i < 100 && pc.iceTransport.Role() == ICERoleUnknown; i++ {
			verif.Settle()
		}
	}
	t := &DTLSTransport{api: pc.api, iceTransport: pc.iceTransport, remoteParameters: DTLSParameters{Role: remoteRole}}
	return pc.iceTransport.Role(), t.role(), true
}

func verifC13Setup(d SessionDescription) string {
	p := verifParse(d)
	if len(p.MediaDescriptions) == 0 {
		return "none"
	}
	v, n := verifAttr(p.MediaDescriptions[0], "setup")
	if n == 0 {
		return "absent"
	}
	return v
}

// VerifC13: an offering pion peer (ICE-lite symbolic) and an answering pion peer
// (ICE-lite and configured answering DTLS role symbolic); the offer's a=setup is
// rewritten to one of {actpass, active, passive, absent} before the answerer sees it.
func VerifC13() {
	verifC13Starts = nil
	liteA := verif.Bool("offerer_lite")
	liteB := verif.Bool("answerer_lite")
	role := verif.Choice("answering_dtls_role", 3) // 0 unset, 1 client, 2 server
	setup := verif.Choice("offer_setup", 4)        // 0 actpass 1 active 2 passive 3 absent

	seA := SettingEngine{}
	seA.SetLite(liteA)
	seB := SettingEngine{}
	seB.SetLite(liteB)
	switch role {
	case 1:
		verif.Assert(seB.SetAnsweringDTLSRole(DTLSRoleClient) == nil, "set-role")
	case 2:
		verif.Assert(seB.SetAnsweringDTLSRole(DTLSRoleServer) == nil, "set-role")
	}
	a := verifNewPC(seA, Configuration{})
	b := verifNewPC(seB, Configuration{})
	defer func() {
		if !verif.Symbolic() {
			_ = a.Close()
			_ = b.Close()
		}
	}()
	if verif.Choice("media", 2) == 0 {
		_, err := a.CreateDataChannel("d", nil)
		verif.Assert(err == nil, "setup-api")
	} else {
		_, err := a.AddTransceiverFromKind(RTPCodecTypeVideo)
		verif.Assert(err == nil, "setup-api")
	}
	offer, err := a.CreateOffer(nil)
	verif.Assert(err == nil, "setup-api")
	verif.Assert(a.SetLocalDescription(offer) == nil, "setup-api")
	verif.Assert(verifC13Setup(offer) == "actpass", "pion-offer-is-actpass")
	verif.Assert(strings.Contains(offer.SDP, "a=ice-lite\r\n") == liteA, "offer-advertises-lite")

	seen := offer
	switch setup {
	case 1:
		seen.SDP = strings.ReplaceAll(offer.SDP, "a=setup:actpass\r\n", "a=setup:active\r\n")
	case 2:
		seen.SDP = strings.ReplaceAll(offer.SDP, "a=setup:actpass\r\n", "a=setup:passive\r\n")
	case 3:
		seen.SDP = strings.ReplaceAll(offer.SDP, "a=setup:actpass\r\n", "")
	}
	verif.Assert(b.SetRemoteDescription(seen) == nil, "setup-api")
	answer, err := b.CreateAnswer(nil)
	verif.Assert(err == nil, "setup-api")
	ansSetup := verifC13Setup(answer)
	verif.Key("answer-setup-active-or-passive", "offer_setup", setup)
	verif.Assert(ansSetup == "active" || ansSetup == "passive", "answer-setup-active-or-passive")
	verif.Assert(strings.Contains(answer.SDP, "a=ice-lite\r\n") == liteB, "answer-advertises-lite")
	verif.Assert(b.SetLocalDescription(answer) == nil, "setup-api")
	verif.Assert(a.SetRemoteDescription(answer) == nil, "setup-api")
	verif.Settle()

	iceA, dtlsA, okA := verifC13Roles(a, a.RemoteDescription())
	iceB, dtlsB, okB := verifC13Roles(b, b.RemoteDescription())
	verif.Assert(okA, "transports-started")
	verif.Assert(okB, "transports-started")

	// ICE: exactly one controlling agent, chosen per RFC 8445 6.1.1: a full agent
	// facing a lite one controls; otherwise the offerer does.
	wantA, wantB := ICERoleControlling, ICERoleControlled
	if liteA && !liteB {
		wantA, wantB = ICERoleControlled, ICERoleControlling
	}
	verif.Assert(iceA == wantA, "ice-role-offerer")
	verif.Assert(iceB == wantB, "ice-role-answerer")

	// DTLS: the role the offering endpoint takes follows from the setup values
	// exchanged: its own explicit one, else the inverse of the answer's.
	var offererRole DTLSRole
	switch {
	case setup == 1:
		offererRole = DTLSRoleClient
	case setup == 2:
		offererRole = DTLSRoleServer
	case ansSetup == "active":
		offererRole = DTLSRoleServer
	default:
		offererRole = DTLSRoleClient
	}
	verif.Key("dtls-roles-complementary", "offer_setup", setup)
	verif.Key("dtls-roles-complementary", "answering_role", role)
	verif.Key("answer-setup-is-the-role-taken", "offer_setup", setup)
	verif.Key("answer-setup-is-the-role-taken", "answering_role", role)
	verif.KeyBool("answer-setup-is-the-role-taken", "offerer_lite_only", liteA && !liteB)
	verif.Assert(dtlsB == DTLSRoleClient || dtlsB == DTLSRoleServer, "dtls-role-decided")
	verif.Assert(dtlsB != offererRole, "dtls-roles-complementary")
	verif.Assert((ansSetup == "active") == (dtlsB == DTLSRoleClient), "answer-setup-is-the-role-taken")
	if setup == 0 {
		// both endpoints are pion: the offerer's transport must take the complementary role
		verif.Assert(dtlsA == offererRole, "pion-offerer-dtls-role")
		verif.Assert(dtlsA != dtlsB, "dtls-roles-complementary")
	}
	verif.Reach("done")
}
