//go:build verif

package webrtc

// VerifC10 drives the shared negotiation scenarios (harness/lib/sdpdriver.go.txt)
// and asserts the conditions of property C10 on every description produced.
func VerifC10() { verifSDPDriver(checkC10) }
