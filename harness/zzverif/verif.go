// Package zzverif is the harness API. Under the symbolic executor (gosmt) every
// function here is intercepted by name and never executed. Compiled natively
// (counterexample replay) the functions read the solver's model from the file
// named by $VERIF_REPLAY.
package zzverif

import (
	"encoding/json"
	"fmt"
	"math"
	"os"
	"strings"
	"time"
)

type replayFile struct {
	Model  map[string]uint64 `json:"model"`
	Params map[string]int64  `json:"params"`
}

var (
	model  = map[string]uint64{}
	params = map[string]int64{}
	seen   = map[string]int{}
	failed []string
)

// LoadReplay reads the replay vector.
func LoadReplay() {
	p := os.Getenv("VERIF_REPLAY")
	if p == "" {
		return
	}
	b, err := os.ReadFile(p)
	if err != nil {
		fmt.Println("VERIF-REPLAY-ERROR", err)
		os.Exit(4)
	}
	var rf replayFile
	if err := json.Unmarshal(b, &rf); err != nil {
		fmt.Println("VERIF-REPLAY-ERROR", err)
		os.Exit(4)
	}
	if rf.Model != nil {
		model = rf.Model
	}
	if rf.Params != nil {
		params = rf.Params
	}
}

// Finish reports the end of a replay run.
func Finish() {
	if r := recover(); r != nil {
		fmt.Println("VERIF-PANIC", r)
		panic(r)
	}
	fmt.Println("VERIF-REPLAY-DONE")
}

func sanitize(s string) string {
	var sb strings.Builder
	for _, c := range s {
		if c >= 'a' && c <= 'z' || c >= 'A' && c <= 'Z' || c >= '0' && c <= '9' || c == '_' {
			sb.WriteRune(c)
		} else {
			sb.WriteByte('_')
		}
	}
	return sb.String()
}

func get(name string) uint64 {
	n := seen[name]
	seen[name] = n + 1
	full := name
	if n > 0 {
		full = fmt.Sprintf("%s__%d", name, n)
	}
	return model[sanitize(full)]
}

func U8(name string) uint8    { return uint8(get(name)) }
func U16(name string) uint16  { return uint16(get(name)) }
func U32(name string) uint32  { return uint32(get(name)) }
func U64(name string) uint64  { return get(name) }
func I64(name string) int64   { return int64(get(name)) }
func Int(name string) int     { return int(get(name)) }
func Bool(name string) bool   { return get(name) != 0 }
func F64(name string) float64 { return float64frombits(get(name)) }

// IntRange returns an arbitrary int in [lo,hi].
func IntRange(name string, lo, hi int) int {
	v := int(get(name))
	Assume(lo <= v && v <= hi)
	return v
}

// Choice returns an arbitrary value in [0,n); the executor forks per value.
func Choice(name string, n int) int {
	v := int(get(name))
	Assume(v >= 0 && v < n)
	return v
}

// Bytes returns n arbitrary bytes.
func Bytes(name string, n int) []byte {
	b := make([]byte, n)
	for i := range b {
		b[i] = byte(get(fmt.Sprintf("%s_%d", name, i)))
	}
	return b
}

// String returns an arbitrary string of n bytes.
func String(name string, n int) string { return string(Bytes(name, n)) }

// Concrete forces the executor to fork over the feasible values of v.
func Concrete(v int) int { return v }

// Assume restricts the inputs considered.
func Assume(c bool) {
	if !c {
		fmt.Println("VERIF-ASSUME-FALSE")
		os.Exit(0)
	}
}

// Assert states the property.
func Assert(c bool, label string) {
	if !c {
		fmt.Println("VERIF-ASSERT-FAIL", label)
		os.Exit(1)
	}
}

// Key attaches a classification value to the next Assert with the same label.
func Key(label, name string, v int)      {}
func KeyBool(label, name string, v bool) {}

// Reach marks a location that must be reachable (vacuity guard).
func Reach(label string) {}

// Param returns a tier-dependent bound.
func Param(name string, def int) int {
	if v, ok := params[name]; ok {
		return int(v)
	}
	return def
}

// Symbolic reports whether the code runs under the symbolic executor.
func Symbolic() bool { return false }

// Note records an assumption in the evidence.
func Note(s string) {}

// Yield is a visible scheduling point.
func Yield() {}

// Preemptible(false) marks a sequential phase of a harness: the executor's
// scheduler switches threads only when the running one blocks, until
// Preemptible(true). Natively a no-op.
func Preemptible(on bool) {}

// Settle lets every other goroutine run until it finishes or blocks.
func Settle() { time.Sleep(30 * time.Millisecond) }

func float64frombits(b uint64) float64 { return math.Float64frombits(b) }

// Observe logs a value; executor and native logs are compared by `gosmt selftest`.
func Observe(tag string, v uint64) { fmt.Printf("VERIF-OBSERVE %s %d\n", tag, v) }

// ObserveStr logs a string value.
func ObserveStr(tag string, s string) { fmt.Printf("VERIF-OBSERVE %s %q\n", tag, s) }

// SymLenBytes returns a zero-filled byte slice of arbitrary length in [0,max].
// Under the executor the length is a solver variable and the content is irrelevant.
func SymLenBytes(name string, max int) []byte {
	n := int(get(name))
	Assume(n >= 0 && n <= max)
	return make([]byte, n)
}

// SameF64 reports whether two float64 values are the same value (bit pattern;
// NaN equals NaN). Under the executor identical terms fold to true.
func SameF64(a, b float64) bool { return math.Float64bits(a) == math.Float64bits(b) }

// SymSet16 returns an arbitrary set of uint16. Natively the members below n are
// taken from the replay vector (name_<i> != 0).
func SymSet16(name string, n int) map[uint16]struct{} {
	m := map[uint16]struct{}{}
	for i := 0; i < n; i++ {
		if model[fmt.Sprintf("%s_%d", sanitize(name), i)] != 0 {
			m[uint16(i)] = struct{}{}
		}
	}
	return m
}

// SetSnapshot16 returns an independent copy of a set.
func SetSnapshot16(m map[uint16]struct{}) map[uint16]struct{} {
	c := make(map[uint16]struct{}, len(m))
	for k := range m {
		c[k] = struct{}{}
	}
	return c
}
