//go:build verif

package h264writer

import (
	"errors"
	"io"

	"github.com/pion/rtp"
	"github.com/pion/webrtc/v4/pkg/media/h264reader"
	verif "github.com/pion/webrtc/v4/internal/zzverif"
)

type verifSink struct{ data []byte }

func (s *verifSink) Write(p []byte) (int, error) {
	s.data = append(s.data, p...)
	return len(p), nil
}

type verifIn struct {
	data []byte
	pos  int
}

func (s *verifIn) Read(p []byte) (int, error) {
	if s.pos >= len(s.data) {
		return 0, io.EOF
	}
	n := copy(p, s.data[s.pos:])
	s.pos += n
	return n, nil
}

// verifNAL: one NAL unit of 2..max_nal bytes: header (F=0, NRI and type symbolic,
// type in 1..23) and non-zero body bytes (so no start code can be emulated).
func verifNAL(min, max int) []byte {
	n := min + verif.Choice("nal_len", max-min+1)
	u := verif.Bytes("nal", n)
	verif.Assume(u[0]&0x80 == 0)
	verif.Assume(u[0]&0x1F >= 1)
	verif.Assume(u[0]&0x1F <= 23)
	for i := 1; i < n; i++ {
		verif.Assume(u[i] != 0)
	}
	return u
}

// VerifC35H264: RTP packets in the three RFC 6184 shapes (single NAL, STAP-A of
// two units, FU-A start+end pair) are written by H264Writer; reading the output
// back with h264reader must give exactly the NAL units from the first keyframe
// (first SPS or IDR) onward, in order.
func VerifC35H264() {
	sink := &verifSink{}
	w := NewWith(sink)
	var want [][]byte
	started := false
	npk := verif.Param("packets", 2)
	maxNAL := verif.Param("max_nal", 3)
	for i := 0; i < npk; i++ {
		var units [][]byte
		var payloads [][]byte
		shape := verif.Choice("shape", 3)
		switch shape {
		case 0: // single NAL unit packet
			u := verifNAL(2, maxNAL)
			units = [][]byte{u}
			payloads = [][]byte{u}
		case 1: // STAP-A with two units
			a, b := verifNAL(2, maxNAL), verifNAL(2, maxNAL)
			p := []byte{24 | (a[0] & 0x60)}
			p = append(p, 0, byte(len(a)))
			p = append(p, a...)
			p = append(p, 0, byte(len(b)))
			p = append(p, b...)
			units = [][]byte{a, b}
			payloads = [][]byte{p}
		default: // FU-A: one unit of 3 bytes split into a start and an end fragment
			u := verifNAL(3, verif.Param("max_fua_nal", 4))
			ind := 28 | (u[0] & 0x60)
			// the start fragment carries all but the last body byte, the end fragment the last one
			start := append([]byte{ind, 0x80 | (u[0] & 0x1F)}, u[1:len(u)-1]...)
			end := []byte{ind, 0x40 | (u[0] & 0x1F), u[len(u)-1]}
			units = [][]byte{u}
			payloads = [][]byte{start, end}
		}
		for _, p := range payloads {
			err := w.WriteRTP(&rtp.Packet{Header: rtp.Header{Version: 2}, Payload: p})
			verif.Assert(err == nil, "write-ok")
		}
		firstType := units[0][0] & 0x1F
		if !started && (firstType == 7 || firstType == 5) {
			started = true
			verif.Key("units-from-first-keyframe", "first_type", int(firstType))
			verif.Key("units-from-first-keyframe", "rtp_shape", shape)
			verif.KeyBool("units-from-first-keyframe", "first_packet_shorter_than_4", len(payloads[0]) < 4)
		}
		if started {
			want = append(want, units...)
		}
	}
	verif.Assert(w.Close() == nil, "close-ok")

	r, err := h264reader.NewReaderWithOptions(&verifIn{data: sink.data}, h264reader.WithIncludeSEI(true))
	verif.Assert(err == nil, "reader-open")
	ok := true
	for i := range want {
		nal, err := r.NextNAL()
		if err != nil || nal == nil || len(nal.Data) != len(want[i]) {
			ok = false
			break
		}
		for j := range want[i] {
			if nal.Data[j] != want[i][j] {
				ok = false
			}
		}
	}
	if ok {
		nal, err := r.NextNAL()
		ok = nal == nil && errors.Is(err, io.EOF)
	}
	verif.Assert(ok, "units-from-first-keyframe")
	if started {
		verif.Reach("had-keyframe")
	} else {
		verif.Reach("no-keyframe")
	}
}
