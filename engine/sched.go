package main

// Cooperative scheduling of interpreted goroutines. Each interpreted goroutine
// runs on its own Go goroutine, but only the holder of the baton executes.
// At every visible operation the identity of the next thread is a recorded
// decision, so every interleaving within the bounds is explored.

import (
	"fmt"
	"go/types"
	"runtime/debug"
	"sync"

	"golang.org/x/tools/go/ssa"
)

type Thread struct {
	id     int
	wake   chan struct{}
	done   bool
	waitFn func() bool
	what   string
	stack  []*ssa.Function
}

type abortSignal struct{}

type Scheduler struct {
	in          *Interp
	threads     []*Thread
	aborted     bool
	outcome     interface{}
	haveOutcome bool
	wg          sync.WaitGroup
	preemptions int
	noPreempt   bool // verif.Preemptible(false): sequential phase of a harness
	visible     int
	mainDone    bool
}

type lockState struct {
	held    bool
	owner   int
	readers int
}

func newScheduler(in *Interp) *Scheduler { return &Scheduler{in: in} }

func (s *Scheduler) runMain(f func()) {
	in := s.in
	main := &Thread{id: 0, wake: make(chan struct{}, 1)}
	s.threads = []*Thread{main}
	in.cur = main
	func() {
		defer func() {
			r := recover()
			if _, ok := r.(abortSignal); ok {
				return // outcome recorded by the aborting thread
			}
			if !s.haveOutcome {
				switch e := r.(type) {
				case nil, *GoPanic, *pathEnd:
				case *EngineError:
					r = &EngineError{msg: e.msg + in.stackString()}
				default:
					r = &EngineError{msg: fmt.Sprintf("%v%s\n%s", r, in.stackString(), debug.Stack())}
				}
				s.outcome = r
				s.haveOutcome = true
			}
		}()
		f()
	}()
	s.mainDone = true
	// release every other goroutine
	s.aborted = true
	for _, t := range s.threads[1:] {
		if !t.done {
			select {
			case t.wake <- struct{}{}:
			default:
			}
		}
	}
	s.wg.Wait()
	in.recordOutcome(s.outcome)
}

func (s *Scheduler) enabled() []*Thread {
	var en []*Thread
	for _, t := range s.threads {
		if t.done {
			continue
		}
		if t.waitFn == nil || t.waitFn() {
			en = append(en, t)
		}
	}
	return en
}

func (s *Scheduler) live() int {
	n := 0
	for _, t := range s.threads {
		if !t.done {
			n++
		}
	}
	return n
}

// switchTo hands the baton to t and waits until it comes back.
func (s *Scheduler) switchTo(t *Thread) {
	cur := s.in.cur
	if t == cur {
		return
	}
	s.in.cur = t
	t.wake <- struct{}{}
	<-cur.wake
	if s.aborted {
		panic(abortSignal{})
	}
	s.in.cur = cur
}

// yield is called before every visible operation.
func (s *Scheduler) yield() {
	if s.live() <= 1 {
		return
	}
	in := s.in
	s.visible++
	if s.visible > in.eng.maxVisible() {
		panic(&pathEnd{kind: "budget", msg: "visible-step bound reached"})
	}
	en := s.enabled()
	if len(en) <= 1 {
		return
	}
	if pb := in.eng.preemptBound(); pb >= 0 && s.preemptions >= pb {
		return
	}
	if s.noPreempt {
		return
	}
	// order: current thread first so choice 0 = no preemption
	cur := in.cur
	ordered := []*Thread{cur}
	for _, t := range en {
		if t != cur {
			ordered = append(ordered, t)
		}
	}
	c := in.choose(len(ordered), "sched")
	if c != 0 {
		s.preemptions++
		s.switchTo(ordered[c])
	}
}

// block suspends the current thread until pred holds.
func (s *Scheduler) block(pred func() bool, what string) {
	in := s.in
	if pred() {
		return
	}
	cur := in.cur
	cur.waitFn = pred
	cur.what = what
	for {
		en := s.enabled()
		if len(en) == 0 {
			s.deadlock()
		}
		// the current thread is blocked, so this is not a preemption
		var c int
		if len(en) > 1 {
			c = in.choose(len(en), "sched-blocked")
		}
		if en[c] == cur {
			break
		}
		s.switchTo(en[c])
		if pred() {
			break
		}
	}
	cur.waitFn = nil
}

func (s *Scheduler) deadlock() {
	in := s.in
	detail := ""
	for _, t := range s.threads {
		if !t.done {
			detail += fmt.Sprintf("[thread %d blocked on %s] ", t.id, t.what)
		}
	}
	m := map[string]uint64{}
	if in.S.Check() == Sat {
		m = in.model()
	}
	in.res.Violations = append(in.res.Violations, &Violation{Label: "deadlock", Key: "deadlock", Kind: "deadlock", Model: m, Choices: in.choicesTaken(), Detail: detail})
	panic(&pathEnd{kind: "deadlock", msg: detail})
}

// abortFrom is called when a non-main thread ends the path.
func (s *Scheduler) abortFrom(r interface{}) {
	if !s.haveOutcome {
		s.outcome = r
		s.haveOutcome = true
	}
	s.aborted = true
	main := s.threads[0]
	select {
	case main.wake <- struct{}{}:
	default:
	}
}

func (in *Interp) spawn(fr *Frame, fn Value, args []Value, site ssa.Instruction) {
	s := in.sched
	t := &Thread{id: len(s.threads), wake: make(chan struct{}, 1)}
	s.threads = append(s.threads, t)
	if len(s.threads) > in.eng.maxThreads() {
		panic(&pathEnd{kind: "budget", msg: "thread bound reached"})
	}
	s.wg.Add(1)
	go func() {
		defer s.wg.Done()
		<-t.wake
		if s.aborted {
			t.done = true
			return
		}
		defer func() {
			r := recover()
			t.done = true
			if _, ok := r.(abortSignal); ok {
				return
			}
			if r != nil {
				s.abortFrom(r)
				return
			}
			if s.aborted {
				return
			}
			// thread finished normally: hand the baton on
			en := s.enabled()
			if len(en) == 0 {
				if s.live() > 0 {
					func() {
						defer func() {
							if r := recover(); r != nil {
								s.abortFrom(r)
							}
						}()
						s.deadlock()
					}()
				}
				return
			}
			func() {
				defer func() {
					if r := recover(); r != nil {
						if _, ok := r.(abortSignal); !ok {
							s.abortFrom(r)
						}
					}
				}()
				c := 0
				if len(en) > 1 {
					c = in.choose(len(en), "sched-exit")
				}
				in.cur = en[c]
				en[c].wake <- struct{}{}
			}()
		}()
		in.cur = t
		in.call(nil, fn, args, site)
	}()
	s.yield()
}

func (e *Engine) maxThreads() int {
	if v, ok := e.params["max_threads"]; ok {
		return int(v)
	}
	return 8
}

func (e *Engine) maxVisible() int {
	if v, ok := e.params["max_visible"]; ok {
		return int(v)
	}
	return 400
}

func (e *Engine) preemptBound() int {
	if v, ok := e.params["preempt_bound"]; ok {
		return int(v)
	}
	return -1
}

// ---- mutexes

func (in *Interp) lockFor(p *Ptr) *lockState {
	k := fmt.Sprintf("%d%v", p.obj.id, p.path)
	l, ok := in.locks[k]
	if !ok {
		l = &lockState{}
		in.locks[k] = l
	}
	return l
}

func (in *Interp) mutexLock(p *Ptr) {
	if p == nil {
		in.goPanicRuntime("nil mutex")
	}
	in.sched.yield()
	l := in.lockFor(p)
	in.sched.block(func() bool { return !l.held && l.readers == 0 }, "Lock")
	l.held = true
	l.owner = in.cur.id
}

func (in *Interp) mutexTryLock(p *Ptr) bool {
	in.sched.yield()
	l := in.lockFor(p)
	if l.held || l.readers > 0 {
		return false
	}
	l.held = true
	l.owner = in.cur.id
	return true
}

func (in *Interp) mutexUnlock(p *Ptr) {
	in.sched.yield()
	l := in.lockFor(p)
	if !l.held {
		// fatal error in Go: not recoverable
		panic(&GoPanic{val: Iface{t: types.Typ[types.String], v: Str{s: "sync: unlock of unlocked mutex"}}, trace: "fatal"})
	}
	l.held = false
}

func (in *Interp) rwRLock(p *Ptr) {
	in.sched.yield()
	l := in.lockFor(p)
	in.sched.block(func() bool { return !l.held }, "RLock")
	l.readers++
}

func (in *Interp) rwRUnlock(p *Ptr) {
	in.sched.yield()
	l := in.lockFor(p)
	if l.readers <= 0 {
		panic(&GoPanic{val: Iface{t: types.Typ[types.String], v: Str{s: "sync: RUnlock of unlocked RWMutex"}}, trace: "fatal"})
	}
	l.readers--
}

// ---- channels

func (in *Interp) chanSend(cv Value, v Value) {
	c, _ := cv.(*ChanV)
	in.sched.yield()
	if c == nil {
		in.sched.block(func() bool { return false }, "send on nil chan")
	}
	if c.closed {
		in.goPanicRuntime("send on closed channel")
	}
	if c.cap > 0 {
		in.sched.block(func() bool { return len(c.buf) < c.cap || c.closed }, "chan send")
		if c.closed {
			in.goPanicRuntime("send on closed channel")
		}
		c.buf = append(c.buf, v)
		return
	}
	in.sched.block(func() bool { return c.handoff == nil || c.closed }, "chan send (slot)")
	if c.closed {
		in.goPanicRuntime("send on closed channel")
	}
	tok := []Value{v}
	c.handoff = tok
	in.sched.block(func() bool { return !sameSlice(c.handoff, tok) || c.closed }, "chan send (rendezvous)")
	if sameSlice(c.handoff, tok) && c.closed {
		in.goPanicRuntime("send on closed channel")
	}
}

func sameSlice(a, b []Value) bool {
	return len(a) > 0 && len(b) > 0 && &a[0] == &b[0]
}

func (in *Interp) chanRecvReady(c *ChanV) bool {
	return len(c.buf) > 0 || c.handoff != nil || c.closed
}

func (in *Interp) chanTake(c *ChanV, et types.Type) (Value, bool) {
	if len(c.buf) > 0 {
		v := c.buf[0]
		c.buf = c.buf[1:]
		return v, true
	}
	if c.handoff != nil {
		v := c.handoff[0]
		c.handoff = nil
		return v, true
	}
	return in.zero(et), false
}

func (in *Interp) chanRecv(cv Value, commaOk bool, rt types.Type) Value {
	c, _ := cv.(*ChanV)
	in.sched.yield()
	if c == nil {
		in.sched.block(func() bool { return false }, "recv on nil chan")
	}
	c.recvWaiting++
	in.sched.block(func() bool { return in.chanRecvReady(c) }, "chan recv")
	c.recvWaiting--
	var et types.Type
	if commaOk {
		et = rt.(*types.Tuple).At(0).Type()
	} else {
		et = rt
	}
	v, ok := in.chanTake(c, et)
	if commaOk {
		return TupleV{v, in.F.Bool(ok)}
	}
	return v
}

func (in *Interp) chanClose(cv Value) {
	c, _ := cv.(*ChanV)
	in.sched.yield()
	if c == nil {
		in.goPanicRuntime("close of nil channel")
	}
	if c.closed {
		in.goPanicRuntime("close of closed channel")
	}
	c.closed = true
}

func (in *Interp) selectOp(fr *Frame, ins *ssa.Select) Value {
	in.sched.yield()
	type st struct {
		c    *ChanV
		send bool
		v    Value
	}
	states := make([]st, len(ins.States))
	for i, s := range ins.States {
		c, _ := fr.get(s.Chan).(*ChanV)
		states[i] = st{c: c, send: s.Dir == types.SendOnly}
		if states[i].send {
			states[i].v = fr.get(s.Send)
		}
	}
	ready := func() []int {
		var r []int
		for i, s := range states {
			if s.c == nil {
				continue
			}
			if s.send {
				if s.c.closed || (s.c.cap > 0 && len(s.c.buf) < s.c.cap) || (s.c.cap == 0 && s.c.recvWaiting > 0 && s.c.handoff == nil) {
					r = append(r, i)
				}
			} else if in.chanRecvReady(s.c) {
				r = append(r, i)
			}
		}
		return r
	}
	r := ready()
	if len(r) == 0 {
		if !ins.Blocking {
			return in.selectResult(ins, -1, nil, false)
		}
		for _, s := range states {
			if s.c != nil && !s.send {
				s.c.recvWaiting++
			}
		}
		in.sched.block(func() bool { return len(ready()) > 0 }, "select")
		for _, s := range states {
			if s.c != nil && !s.send {
				s.c.recvWaiting--
			}
		}
		r = ready()
	}
	k := r[0]
	if len(r) > 1 {
		k = r[in.choose(len(r), "select")]
	}
	s := states[k]
	if s.send {
		if s.c.closed {
			in.goPanicRuntime("send on closed channel")
		}
		if s.c.cap > 0 {
			s.c.buf = append(s.c.buf, s.v)
		} else {
			s.c.handoff = []Value{s.v}
		}
		return in.selectResult(ins, k, nil, false)
	}
	et := ins.States[k].Chan.Type().Underlying().(*types.Chan).Elem()
	v, ok := in.chanTake(s.c, et)
	return in.selectResult(ins, k, v, ok)
}

func (in *Interp) selectResult(ins *ssa.Select, idx int, recv Value, ok bool) Value {
	tup := ins.Type().(*types.Tuple)
	res := make(TupleV, tup.Len())
	res[0] = in.F.Const(64, uint64(int64(idx)))
	res[1] = in.F.Bool(ok)
	j := 2
	for i, s := range ins.States {
		if s.Dir == types.RecvOnly {
			if i == idx {
				res[j] = recv
			} else {
				res[j] = in.zero(tup.At(j).Type())
			}
			j++
		}
	}
	return res
}
