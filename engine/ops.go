package main

import (
	"fmt"
	"go/token"
	"go/types"
	"sort"
	"strings"

	"golang.org/x/tools/go/ssa"
)

// ---------- memory

// resolve walks p.path inside p.obj and returns the parent container and final element.
// Symbolic indices must have been eliminated by the caller (see load/store).
func (in *Interp) navigate(p *Ptr) (get func() Value, set func(Value)) {
	if p == nil {
		in.goPanicRuntime("invalid memory address or nil pointer dereference")
	}
	if len(p.path) == 0 {
		return func() Value { return p.obj.val }, func(v Value) { p.obj.val = v }
	}
	cur := p.obj.val
	for k := 0; k < len(p.path)-1; k++ {
		cur = stepInto(cur, p.path[k].i)
	}
	last := p.path[len(p.path)-1].i
	switch c := cur.(type) {
	case *StructV:
		return func() Value { return c.f[last] }, func(v Value) { c.f[last] = v }
	case *ArrayV:
		if last < 0 || last >= len(c.e) {
			panic(engineErr("navigate: array index out of range"))
		}
		return func() Value { return c.e[last] }, func(v Value) { c.e[last] = v }
	}
	panic(engineErr(fmt.Sprintf("navigate: cannot step into %T", cur)))
}

func stepInto(cur Value, i int) Value {
	switch c := cur.(type) {
	case *StructV:
		return c.f[i]
	case *ArrayV:
		return c.e[i]
	}
	panic(engineErr(fmt.Sprintf("stepInto: cannot step into %T", cur)))
}

func (p *Ptr) symIndex() int {
	for k, e := range p.path {
		if e.t != nil {
			return k
		}
	}
	return -1
}

// arrayAt returns the array value that path element k of p indexes.
func (in *Interp) arrayAt(p *Ptr, k int) *ArrayV {
	cur := p.obj.val
	for j := 0; j < k; j++ {
		cur = stepInto(cur, p.path[j].i)
	}
	a, ok := cur.(*ArrayV)
	if !ok {
		panic(engineErr("symbolic index into non-array"))
	}
	return a
}

func (p *Ptr) withIndex(k, i int) *Ptr {
	np := make([]PE, len(p.path))
	copy(np, p.path)
	np[k] = PE{i: i}
	return &Ptr{obj: p.obj, path: np}
}

func allTerms(vs []Value) bool {
	for _, v := range vs {
		if _, ok := v.(*Term); !ok {
			return false
		}
	}
	return true
}

func (in *Interp) load(pv Value) Value {
	p, _ := pv.(*Ptr)
	if p == nil {
		in.goPanicRuntime("invalid memory address or nil pointer dereference")
	}
	if k := p.symIndex(); k >= 0 {
		a := in.arrayAt(p, k)
		idx := p.path[k].t
		n := len(a.e)
		// scalar element directly addressed: build ite chain / array select
		if k == len(p.path)-1 && allTerms(a.e) && n > 0 {
			if n <= 64 {
				res := a.e[n-1].(*Term)
				for i := n - 2; i >= 0; i-- {
					res = in.F.Ite(in.F.Eq(idx, in.F.Const(idx.sort.W, uint64(i))), a.e[i].(*Term), res)
				}
				return res
			}
			allConst := true
			for _, e := range a.e {
				if !e.(*Term).konst || e.(*Term).sort.K != SBV {
					allConst = false
					break
				}
			}
			if allConst {
				vals := make([]uint64, n)
				for i, e := range a.e {
					vals[i] = e.(*Term).cv
				}
				arr := in.F.ConstArray(idx.sort.W, a.e[0].(*Term).sort.W, vals)
				return in.F.Select(arr, idx)
			}
		}
		i := in.concretize(idx, "load index")
		return in.load(p.withIndex(k, int(i)))
	}
	get, _ := in.navigate(p)
	v := get()
	if _, bad := v.(Poison); bad && in.noFork == 0 {
		panic(&pathEnd{kind: "unsupported", msg: fmt.Sprintf("use of a value initialised by code outside reach: %s %v", p.obj.name, p.path)})
	}
	return copyVal(v)
}

func (in *Interp) store(pv Value, v Value) {
	p, _ := pv.(*Ptr)
	if p == nil {
		in.goPanicRuntime("invalid memory address or nil pointer dereference")
	}
	if k := p.symIndex(); k >= 0 {
		a := in.arrayAt(p, k)
		idx := p.path[k].t
		n := len(a.e)
		if nv, ok := v.(*Term); ok && k == len(p.path)-1 && allTerms(a.e) && n <= 64 {
			for i := 0; i < n; i++ {
				a.e[i] = in.F.Ite(in.F.Eq(idx, in.F.Const(idx.sort.W, uint64(i))), nv, a.e[i].(*Term))
			}
			return
		}
		i := in.concretize(idx, "store index")
		in.store(p.withIndex(k, int(i)), v)
		return
	}
	_, set := in.navigate(p)
	set(copyVal(v))
}

func (in *Interp) makeSlice(et types.Type, l, c int) SliceV {
	at := types.NewArray(et, int64(c))
	o := in.newObject(at, in.zero(at), "makeslice")
	return SliceV{obj: o, off: 0, len: l, cap: c}
}

func (in *Interp) sliceElems(s SliceV) []Value {
	if s.slen != nil {
		// symbolic-length slices support only len, index, append and re-slicing from 0
		panic(&pathEnd{kind: "unsupported", msg: "operation on a symbolic-length slice"})
	}
	if s.obj == nil {
		return nil
	}
	return s.obj.val.(*ArrayV).e[s.off : s.off+s.len]
}

// lenTerm returns the length of a slice as a 64-bit term.
func (in *Interp) lenTerm(s SliceV) *Term {
	if s.slen != nil {
		return s.slen
	}
	return in.F.Const(64, uint64(s.len))
}

// indexAddr: X is *array or slice.
func (in *Interp) indexAddr(x Value, idx *Term) Value {
	var base *Ptr
	var n, off int
	switch xv := x.(type) {
	case *Ptr:
		if xv == nil {
			in.goPanicRuntime("invalid memory address or nil pointer dereference")
		}
		get, _ := in.navigateSym(xv)
		n = len(get().(*ArrayV).e)
		base = xv
	case SliceV:
		n = xv.len
		off = xv.off
		if xv.obj != nil {
			base = &Ptr{obj: xv.obj}
		}
		if xv.slen != nil {
			// symbolic length: the index must be below it (and is then below the maximum n)
			i64 := idx
			if i64.sort.W < 64 {
				i64 = in.F.ZExt(i64, 64)
			}
			if !in.decide(in.F.ULt(i64, xv.slen)) {
				in.goPanicRuntime("index out of range [i] with symbolic length")
			}
			// in range of the real slice; it must also be inside the modelled cells
			if !in.decide(in.F.ULt(i64, in.F.Const(64, uint64(xv.len)))) {
				panic(&pathEnd{kind: "unsupported", msg: "index beyond the modelled cells of a symbolic-length slice"})
			}
		}
	default:
		panic(engineErr(fmt.Sprintf("indexAddr on %T", x)))
	}
	i, sym := in.boundsCheck(idx, n)
	if sym != nil {
		if off != 0 {
			sym = in.F.Add(sym, in.F.Const(sym.sort.W, uint64(off)))
		}
		return base.child(PE{t: sym})
	}
	return base.child(PE{i: off + i})
}

// navigateSym is navigate that tolerates no symbolic indices only (engine error otherwise).
func (in *Interp) navigateSym(p *Ptr) (func() Value, func(Value)) {
	if k := p.symIndex(); k >= 0 {
		i := in.concretize(p.path[k].t, "pointer index")
		return in.navigateSym(p.withIndex(k, int(i)))
	}
	return in.navigate(p)
}

// boundsCheck panics (target panic) on the out-of-range side and returns
// either a concrete index or a symbolic in-range index term (64-bit).
func (in *Interp) boundsCheck(idx *Term, n int) (int, *Term) {
	idx64 := idx
	if idx.sort.W < 64 {
		// index operands of any integer type; SSA keeps their type. Treat as signed
		// for signed types is not knowable here; callers pass converted values.
		idx64 = in.F.ZExt(idx, 64)
	}
	if idx64.konst {
		i := int64(idx64.cv)
		if i < 0 || i >= int64(n) {
			in.goPanicRuntime(fmt.Sprintf("index out of range [%d] with length %d", i, n))
		}
		return int(i), nil
	}
	inb := in.F.ULt(idx64, in.F.Const(64, uint64(n)))
	if !in.decide(inb) {
		in.goPanicRuntime(fmt.Sprintf("index out of range [sym] with length %d", n))
	}
	return 0, idx64
}

func (in *Interp) indexVal(x Value, idx *Term) Value {
	if s, ok := x.(Str); ok {
		i, sym := in.boundsCheck(idx, s.Len())
		if sym != nil {
			i = int(in.concretize(sym, "string value index"))
		}
		return in.strBytes(s)[i]
	}
	a := x.(*ArrayV)
	i, sym := in.boundsCheck(idx, len(a.e))
	if sym != nil {
		i = int(in.concretize(sym, "array value index"))
	}
	return a.e[i]
}

// signExtendIndex converts an index operand of the given static type to 64 bits.
func (in *Interp) idx64(t types.Type, v *Term) *Term {
	w, signed, ok := intWidth(t)
	if !ok || w == 64 {
		return v
	}
	if signed {
		return in.F.SExt(v, 64)
	}
	return in.F.ZExt(v, 64)
}

// ---------- slicing

func (in *Interp) sliceOp(fr *Frame, ins *ssa.Slice) Value {
	x := fr.get(ins.X)
	getI := func(v ssa.Value, def int) int {
		if v == nil {
			return def
		}
		t := in.idx64(v.Type(), fr.get(v).(*Term))
		return int(in.concreteInt(t, "slice bound"))
	}
	switch xv := x.(type) {
	case Str:
		n := xv.Len()
		lo := getI(ins.Low, 0)
		hi := getI(ins.High, n)
		if lo < 0 || hi < lo || hi > n {
			in.goPanicRuntime(fmt.Sprintf("slice bounds out of range [%d:%d] with length %d", lo, hi, n))
		}
		if xv.sym == nil {
			return Str{s: xv.s[lo:hi]}
		}
		return in.strFromBytes(xv.sym[lo:hi])
	case SliceV:
		if xv.slen != nil {
			// s[lo:] and s[lo:hi] with concrete lo are supported on symbolic-length slices
			if ins.Max != nil {
				panic(&pathEnd{kind: "unsupported", msg: "s[::max] on a symbolic-length slice"})
			}
			if ins.High != nil {
				lo := getI(ins.Low, 0)
				hiT := in.idx64(ins.High.Type(), fr.get(ins.High).(*Term))
				// Go requires lo <= hi <= cap; the capacity of a symbolic-length slice is its length
				okT := in.F.And(in.F.ULe(in.F.Const(64, uint64(lo)), hiT), in.F.ULe(hiT, xv.slen))
				if lo < 0 || !in.decide(okT) {
					in.goPanicRuntime("slice bounds out of range with symbolic length")
				}
				nl := in.F.Sub(hiT, in.F.Const(64, uint64(lo)))
				if nl.konst {
					n := int(nl.cv)
					return SliceV{obj: xv.obj, off: xv.off + lo, len: n, cap: n}
				}
				return SliceV{obj: xv.obj, off: xv.off + lo, len: xv.len - lo, cap: xv.cap - lo, slen: nl}
			}
			lo := getI(ins.Low, 0)
			if lo < 0 || !in.decide(in.F.ULe(in.F.Const(64, uint64(lo)), xv.slen)) {
				in.goPanicRuntime("slice bounds out of range with symbolic length")
			}
			return SliceV{obj: xv.obj, off: xv.off + lo, len: xv.len - lo, cap: xv.cap - lo, slen: in.F.Sub(xv.slen, in.F.Const(64, uint64(lo)))}
		}
		lo := getI(ins.Low, 0)
		hi := getI(ins.High, xv.len)
		max := getI(ins.Max, xv.cap)
		if lo < 0 || hi < lo || max < hi || max > xv.cap {
			in.goPanicRuntime(fmt.Sprintf("slice bounds out of range [%d:%d:%d] with capacity %d", lo, hi, max, xv.cap))
		}
		if xv.obj == nil {
			return SliceV{}
		}
		return SliceV{obj: xv.obj, off: xv.off + lo, len: hi - lo, cap: max - lo}
	case *Ptr:
		if xv == nil {
			in.goPanicRuntime("invalid memory address or nil pointer dereference")
		}
		get, _ := in.navigateSym(xv)
		arr := get().(*ArrayV)
		n := len(arr.e)
		lo := getI(ins.Low, 0)
		hi := getI(ins.High, n)
		max := getI(ins.Max, n)
		if lo < 0 || hi < lo || max < hi || max > n {
			in.goPanicRuntime(fmt.Sprintf("slice bounds out of range [%d:%d:%d] with capacity %d", lo, hi, max, n))
		}
		obj := xv.obj
		if len(xv.path) != 0 {
			// array embedded in a larger object: alias through a view object sharing the ArrayV
			obj = in.viewObject(xv, arr)
		}
		return SliceV{obj: obj, off: lo, len: hi - lo, cap: max - lo}
	}
	panic(engineErr(fmt.Sprintf("slice of %T", x)))
}

// viewObject returns an Object whose val is the very same *ArrayV (aliasing).
func (in *Interp) viewObject(p *Ptr, arr *ArrayV) *Object {
	key := fmt.Sprintf("view/%p", arr)
	if v, ok := in.sides[key]; ok {
		return v.(*Object)
	}
	o := in.newObject(nil, arr, "view")
	in.sides[key] = o
	return o
}

// ---------- unary / binary ops

func (in *Interp) unop(fr *Frame, ins *ssa.UnOp) Value {
	x := fr.get(ins.X)
	switch ins.Op {
	case token.MUL:
		return in.load(x)
	case token.ARROW:
		return in.chanRecv(x, ins.CommaOk, ins.Type())
	case token.NOT:
		return in.F.Not(x.(*Term))
	case token.SUB:
		t := x.(*Term)
		if t.sort.K == SFP64 {
			return in.F.FPNeg(t)
		}
		return in.F.Neg(t)
	case token.XOR:
		return in.F.BNot(x.(*Term))
	}
	panic(engineErr("unop " + ins.Op.String()))
}

func (in *Interp) binop(op token.Token, xt types.Type, x, y Value, ins ssa.Instruction) Value {
	F := in.F
	switch op {
	case token.EQL:
		return in.equal(x, y)
	case token.NEQ:
		return F.Not(in.equal(x, y))
	}
	if xs, ok := x.(Str); ok {
		ys := y.(Str)
		switch op {
		case token.ADD:
			if xs.sym == nil && ys.sym == nil {
				return Str{s: xs.s + ys.s}
			}
			return in.strFromBytes(append(append([]*Term{}, in.strBytes(xs)...), in.strBytes(ys)...))
		case token.LSS, token.LEQ, token.GTR, token.GEQ:
			if a, ok := xs.Concrete(); ok {
				if b, ok := ys.Concrete(); ok {
					var r bool
					switch op {
					case token.LSS:
						r = a < b
					case token.LEQ:
						r = a <= b
					case token.GTR:
						r = a > b
					case token.GEQ:
						r = a >= b
					}
					return F.Bool(r)
				}
			}
			lt := in.strLess(xs, ys)
			switch op {
			case token.LSS:
				return lt
			case token.GEQ:
				return F.Not(lt)
			case token.GTR:
				return in.strLess(ys, xs)
			case token.LEQ:
				return F.Not(in.strLess(ys, xs))
			}
		}
		panic(engineErr("string binop " + op.String()))
	}
	a := x.(*Term)
	b := y.(*Term)
	if a.sort.K == SFP64 {
		switch op {
		case token.ADD:
			return F.fpbin("fp.add", a, b)
		case token.SUB:
			return F.fpbin("fp.sub", a, b)
		case token.MUL:
			return F.fpbin("fp.mul", a, b)
		case token.QUO:
			return F.fpbin("fp.div", a, b)
		case token.LSS:
			return F.fpcmp("fp.lt", a, b)
		case token.LEQ:
			return F.fpcmp("fp.leq", a, b)
		case token.GTR:
			return F.fpcmp("fp.gt", a, b)
		case token.GEQ:
			return F.fpcmp("fp.geq", a, b)
		}
		panic(engineErr("float binop " + op.String()))
	}
	if a.sort.K == SBool {
		switch op {
		case token.AND, token.LAND:
			return F.And(a, b)
		case token.OR, token.LOR:
			return F.Or(a, b)
		}
		panic(engineErr("bool binop " + op.String()))
	}
	w, signed, _ := intWidth(xt)
	if w == 0 {
		w = a.sort.W
	}
	switch op {
	case token.ADD:
		return F.Add(a, b)
	case token.SUB:
		return F.Sub(a, b)
	case token.MUL:
		return F.Mul(a, b)
	case token.QUO, token.REM:
		nz := F.Not(F.Eq(b, F.Const(w, 0)))
		if !in.decide(nz) {
			in.goPanicRuntime("integer divide by zero")
		}
		if signed {
			if op == token.QUO {
				return F.SDiv(a, b)
			}
			return F.SRem(a, b)
		}
		if op == token.QUO {
			return F.UDiv(a, b)
		}
		return F.URem(a, b)
	case token.AND:
		return F.BAnd(a, b)
	case token.OR:
		return F.BOr(a, b)
	case token.XOR:
		return F.BXor(a, b)
	case token.AND_NOT:
		return F.BAnd(a, F.BNot(b))
	case token.SHL, token.SHR:
		// shift count: unsigned or signed of any width. Negative signed count panics.
		cnt := b
		if ins != nil {
			if bo, ok := ins.(*ssa.BinOp); ok {
				_, ysigned, _ := intWidth(bo.Y.Type())
				if ysigned {
					neg := F.SLt(cnt, F.Const(cnt.sort.W, 0))
					if in.decide(neg) {
						in.goPanicRuntime("negative shift amount")
					}
				}
			}
		}
		// normalise count to width w with saturation
		var c *Term
		if cnt.sort.W > w {
			big := F.Not(F.ULt(cnt, F.Const(cnt.sort.W, uint64(w))))
			c = F.Ite(big, F.Const(w, uint64(w)), F.Extract(w-1, 0, cnt))
		} else {
			c = F.ZExt(cnt, w)
		}
		if op == token.SHL {
			return F.Shl(a, c)
		}
		if signed {
			return F.AShr(a, c)
		}
		return F.LShr(a, c)
	case token.LSS:
		if signed {
			return F.SLt(a, b)
		}
		return F.ULt(a, b)
	case token.LEQ:
		if signed {
			return F.SLe(a, b)
		}
		return F.ULe(a, b)
	case token.GTR:
		if signed {
			return F.SLt(b, a)
		}
		return F.ULt(b, a)
	case token.GEQ:
		if signed {
			return F.SLe(b, a)
		}
		return F.ULe(b, a)
	}
	panic(engineErr("binop " + op.String()))
}

func (in *Interp) strLess(a, b Str) *Term {
	F := in.F
	ab, bb := in.strBytes(a), in.strBytes(b)
	n := len(ab)
	if len(bb) < n {
		n = len(bb)
	}
	// lexicographic: exists i: prefix equal and a[i]<b[i]; or a is a strict prefix
	res := F.Bool(len(ab) < len(bb))
	for i := n - 1; i >= 0; i-- {
		res = F.Or(F.ULt(ab[i], bb[i]), F.And(F.Eq(ab[i], bb[i]), res))
	}
	return res
}

func (in *Interp) strEqual(a, b Str) *Term {
	if a.Len() != b.Len() {
		return in.F.Bool(false)
	}
	if a.sym == nil && b.sym == nil {
		return in.F.Bool(a.s == b.s)
	}
	ab, bb := in.strBytes(a), in.strBytes(b)
	res := in.F.Bool(true)
	for i := range ab {
		res = in.F.And(res, in.F.Eq(ab[i], bb[i]))
	}
	return res
}

func ptrEqualConcrete(a, b *Ptr) (bool, bool) {
	if a == nil || b == nil {
		return a == b, true
	}
	if a.obj != b.obj {
		// view objects alias arrays inside other objects; treat distinct objects as distinct.
		return false, true
	}
	if len(a.path) != len(b.path) {
		return false, true
	}
	for i := range a.path {
		if a.path[i].t != nil || b.path[i].t != nil {
			return false, false
		}
		if a.path[i].i != b.path[i].i {
			return false, true
		}
	}
	return true, true
}

func (in *Interp) equal(x, y Value) *Term {
	F := in.F
	switch a := x.(type) {
	case nil:
		// comparing with untyped nil constant
		return in.isNil(y)
	case *Term:
		if y == nil {
			panic(engineErr("compare scalar with nil"))
		}
		return F.Eq(a, y.(*Term))
	case Str:
		return in.strEqual(a, y.(Str))
	case *Ptr:
		if y == nil {
			return F.Bool(a == nil)
		}
		b := y.(*Ptr)
		r, ok := ptrEqualConcrete(a, b)
		if ok {
			return F.Bool(r)
		}
		res := F.Bool(true)
		for i := range a.path {
			ta, tb := a.path[i].t, b.path[i].t
			if ta == nil && tb == nil {
				continue
			}
			if ta == nil {
				ta = F.Const(64, uint64(a.path[i].i))
			}
			if tb == nil {
				tb = F.Const(64, uint64(b.path[i].i))
			}
			res = F.And(res, F.Eq(ta, tb))
		}
		return res
	case Iface:
		if y == nil {
			return F.Bool(a.t == nil)
		}
		b := y.(Iface)
		if a.t == nil || b.t == nil {
			return F.Bool(a.t == nil && b.t == nil)
		}
		if !types.Identical(a.t, b.t) {
			return F.Bool(false)
		}
		if !types.Comparable(a.t) {
			in.goPanicRuntime("comparing uncomparable type " + a.t.String())
		}
		return in.equal(a.v, b.v)
	case *StructV:
		b := y.(*StructV)
		res := F.Bool(true)
		for i := range a.f {
			res = F.And(res, in.equal(a.f[i], b.f[i]))
		}
		return res
	case *ArrayV:
		b := y.(*ArrayV)
		res := F.Bool(true)
		for i := range a.e {
			res = F.And(res, in.equal(a.e[i], b.e[i]))
		}
		return res
	case *MapV:
		if y == nil {
			return F.Bool(a == nil)
		}
		return F.Bool(a == y.(*MapV))
	case *ChanV:
		if y == nil {
			return F.Bool(a == nil)
		}
		return F.Bool(a == y.(*ChanV))
	case *Closure:
		if y == nil {
			return F.Bool(a == nil)
		}
		if b, ok := y.(*Closure); ok && (a == nil || b == nil) {
			return F.Bool(a == nil && b == nil)
		}
		panic(engineErr("comparison of func values"))
	case SliceV:
		if y == nil {
			return F.Bool(a.obj == nil)
		}
		if b, ok := y.(SliceV); ok && (a.obj == nil || b.obj == nil) {
			return F.Bool(a.obj == nil && b.obj == nil)
		}
		panic(engineErr("comparison of slices"))
	case *Native:
		if y == nil {
			return F.Bool(a == nil)
		}
		return F.Bool(a == y)
	case *FakeObj:
		return F.Bool(x == y)
	}
	panic(engineErr(fmt.Sprintf("equal: unsupported %T", x)))
}

func (in *Interp) isNil(v Value) *Term {
	F := in.F
	switch a := v.(type) {
	case nil:
		return F.Bool(true)
	case *Ptr:
		return F.Bool(a == nil)
	case Iface:
		return F.Bool(a.t == nil)
	case *MapV:
		return F.Bool(a == nil)
	case *ChanV:
		return F.Bool(a == nil)
	case *Closure:
		return F.Bool(a == nil)
	case SliceV:
		return F.Bool(a.obj == nil)
	case *NativeFn:
		return F.Bool(a == nil)
	}
	panic(engineErr(fmt.Sprintf("isNil: %T", v)))
}

// ---------- conversions

func (in *Interp) convert(from, to types.Type, x Value) Value {
	F := in.F
	uf, ut := from.Underlying(), to.Underlying()
	// pointer / unsafe.Pointer conversions are identities on Ptr
	if _, ok := x.(*Ptr); ok {
		return x
	}
	switch t := ut.(type) {
	case *types.Basic:
		switch {
		case t.Info()&types.IsString != 0:
			switch v := x.(type) {
			case Str:
				return v
			case SliceV: // []byte or []rune -> string
				et := uf.(*types.Slice).Elem().Underlying().(*types.Basic)
				els := in.sliceElems(v)
				if et.Kind() == types.Uint8 {
					bs := make([]*Term, len(els))
					for i, e := range els {
						bs[i] = e.(*Term)
					}
					return in.strFromBytes(bs)
				}
				// []rune
				var sb strings.Builder
				for _, e := range els {
					r := in.concreteInt(e.(*Term), "rune->string")
					sb.WriteRune(rune(r))
				}
				return Str{s: sb.String()}
			case *Term: // integer -> string (rune)
				w, signed, _ := intWidth(from)
				_ = w
				var r int64
				if signed {
					r = in.concreteSigned(v, "int->string")
				} else {
					r = in.concreteInt(v, "int->string")
				}
				return Str{s: string(rune(r))}
			}
		case t.Info()&types.IsInteger != 0:
			v := x.(*Term)
			tw, tsigned, _ := intWidth(t)
			if v.sort.K == SFP64 {
				return F.FPToInt(v, tw, tsigned)
			}
			fw, fsigned, _ := intWidth(from)
			if fw == 0 {
				fw = v.sort.W
			}
			if tw <= fw {
				return F.Extract(tw-1, 0, v)
			}
			if fsigned {
				return F.SExt(v, tw)
			}
			return F.ZExt(v, tw)
		case t.Info()&types.IsFloat != 0:
			v := x.(*Term)
			if v.sort.K == SFP64 {
				if t.Kind() == types.Float32 {
					if v.konst {
						return F.Float(float64(float32(v.fv)))
					}
					panic(engineErr("float32 conversion of symbolic value"))
				}
				return v
			}
			_, fsigned, _ := intWidth(from)
			return F.FPFromInt(v, fsigned)
		case t.Info()&types.IsBoolean != 0:
			return x
		case t.Kind() == types.UnsafePointer:
			return x
		}
	case *types.Slice:
		if s, ok := x.(Str); ok {
			et := t.Elem().Underlying().(*types.Basic)
			if et.Kind() == types.Uint8 {
				bs := in.strBytes(s)
				sl := in.makeSlice(t.Elem(), len(bs), len(bs))
				arr := sl.obj.val.(*ArrayV)
				for i, b := range bs {
					arr.e[i] = b
				}
				return sl
			}
			cs, ok := s.Concrete()
			if !ok {
				panic(&pathEnd{kind: "unsupported", msg: "[]rune of symbolic string"})
			}
			rs := []rune(cs)
			sl := in.makeSlice(t.Elem(), len(rs), len(rs))
			arr := sl.obj.val.(*ArrayV)
			for i, r := range rs {
				arr.e[i] = F.Const(32, uint64(r))
			}
			return sl
		}
		return x
	case *types.Pointer:
		return x
	}
	_ = uf
	return x
}

func (in *Interp) concreteSigned(t *Term, what string) int64 {
	v := in.concretize(t, what)
	return sext(v, t.sort.W)
}

// concreteInt returns the value of t as a signed integer, concretising by fork if symbolic.
func (in *Interp) concreteInt(t *Term, what string) int64 {
	if t.konst {
		return sext(t.cv, t.sort.W)
	}
	return sext(in.concretize(t, what), t.sort.W)
}

// ---------- maps

func (in *Interp) keyString(k Value) (string, bool) {
	switch x := k.(type) {
	case *Term:
		if x.konst {
			if x.sort.K == SFP64 {
				return fmt.Sprintf("f%v", x.fv), true
			}
			return fmt.Sprintf("%d:%d", x.sort.W, x.cv), true
		}
		return "", false
	case Str:
		s, ok := x.Concrete()
		return "s" + s, ok
	case *Ptr:
		if x == nil {
			return "p0", true
		}
		if x.symIndex() >= 0 {
			return "", false
		}
		return fmt.Sprintf("p%d%v", x.obj.id, x.path), true
	case Iface:
		if x.t == nil {
			return "i0", true
		}
		s, ok := in.keyString(x.v)
		return "i" + typeKey(x.t) + "|" + s, ok
	case *StructV:
		var sb strings.Builder
		sb.WriteString("{")
		for _, f := range x.f {
			s, ok := in.keyString(f)
			if !ok {
				return "", false
			}
			sb.WriteString(s)
			sb.WriteString(";")
		}
		return sb.String(), true
	case *ArrayV:
		var sb strings.Builder
		sb.WriteString("[")
		for _, f := range x.e {
			s, ok := in.keyString(f)
			if !ok {
				return "", false
			}
			sb.WriteString(s)
			sb.WriteString(";")
		}
		return sb.String(), true
	case *ChanV:
		if x == nil {
			return "c0", true
		}
		return fmt.Sprintf("c%d", x.id), true
	case *FakeObj:
		return fmt.Sprintf("fake%p", x), true
	}
	panic(engineErr(fmt.Sprintf("map key of type %T", k)))
}

// mapFind returns the index of the entry matching k, or -1. Symbolic keys fork.
func (in *Interp) mapFind(m *MapV, k Value) int {
	ks, conc := in.keyString(k)
	if conc && !m.symKeys {
		if i, ok := m.idx[ks]; ok {
			return i
		}
		return -1
	}
	for i, e := range m.entries {
		if e == nil {
			continue
		}
		if in.decide(in.equal(e.k, k)) {
			return i
		}
	}
	return -1
}

func (in *Interp) mapSet(m *MapV, k, v Value) {
	if m.arr != nil {
		m.arr = in.F.Store(m.arr, k.(*Term), in.F.Const(1, 1))
		return
	}
	i := in.mapFind(m, k)
	if i >= 0 {
		m.entries[i].v = copyVal(v)
		return
	}
	ks, conc := in.keyString(k)
	if !conc {
		m.symKeys = true
	} else {
		m.idx[ks] = len(m.entries)
	}
	m.entries = append(m.entries, &MapEntry{k: k, v: copyVal(v)})
}

func (in *Interp) mapDelete(m *MapV, k Value) {
	if m == nil {
		return
	}
	if m.arr != nil {
		m.arr = in.F.Store(m.arr, k.(*Term), in.F.Const(1, 0))
		return
	}
	i := in.mapFind(m, k)
	if i < 0 {
		return
	}
	if ks, conc := in.keyString(m.entries[i].k); conc {
		delete(m.idx, ks)
	}
	m.entries[i] = nil
}

func (m *MapV) length() int {
	if m.arr != nil {
		panic(&pathEnd{kind: "unsupported", msg: "len/range of a symbolic set"})
	}
	n := 0
	for _, e := range m.entries {
		if e != nil {
			n++
		}
	}
	return n
}

func (in *Interp) lookup(ins *ssa.Lookup, x Value, idx Value) Value {
	switch xv := x.(type) {
	case Str:
		it := in.idx64(ins.Index.Type(), idx.(*Term))
		i, sym := in.boundsCheck(it, xv.Len())
		if sym != nil {
			bs := in.strBytes(xv)
			n := len(bs)
			if n <= 64 {
				res := bs[n-1]
				for j := n - 2; j >= 0; j-- {
					res = in.F.Ite(in.F.Eq(sym, in.F.Const(64, uint64(j))), bs[j], res)
				}
				return res
			}
			i = int(in.concretize(sym, "string index"))
		}
		if xv.sym == nil {
			return in.F.Const(8, uint64(xv.s[i]))
		}
		return xv.sym[i]
	case *MapV:
		vt := ins.X.Type().Underlying().(*types.Map).Elem()
		var val Value
		found := false
		if xv != nil && xv.arr != nil {
			// symbolic set: membership is a term, no fork here
			member := in.F.Eq(in.F.Select(xv.arr, idx.(*Term)), in.F.Const(1, 1))
			if ins.CommaOk {
				return TupleV{in.zero(vt), member}
			}
			return in.zero(vt)
		}
		if xv != nil {
			if i := in.mapFind(xv, idx); i >= 0 {
				val = copyVal(xv.entries[i].v)
				found = true
			}
		}
		if !found {
			val = in.zero(vt)
		}
		if ins.CommaOk {
			return TupleV{val, in.F.Bool(found)}
		}
		return val
	}
	panic(engineErr(fmt.Sprintf("lookup on %T", x)))
}

// ---------- range iterators

type iter struct {
	str   *Str
	pos   int
	m     *MapV
	order []int
}

func (in *Interp) rangeIter(x Value) Value {
	switch xv := x.(type) {
	case Str:
		return &iter{str: &xv}
	case *MapV:
		it := &iter{m: xv}
		if xv != nil && xv.arr != nil {
			panic(&pathEnd{kind: "unsupported", msg: "range over a symbolic set"})
		}
		if xv != nil {
			for i, e := range xv.entries {
				if e != nil {
					it.order = append(it.order, i)
				}
			}
			if in.eng.sortMaps {
				sort.SliceStable(it.order, func(a, b int) bool {
					ka, _ := in.keyString(xv.entries[it.order[a]].k)
					kb, _ := in.keyString(xv.entries[it.order[b]].k)
					return ka < kb
				})
			}
			if n := len(it.order); n >= 2 && n <= in.eng.mapPermMax && in.noFork == 0 {
				// explore every iteration order: choose a permutation by successive choices
				rest := append([]int{}, it.order...)
				var ord []int
				for len(rest) > 1 {
					c := in.choose(len(rest), "map-order")
					ord = append(ord, rest[c])
					rest = append(rest[:c], rest[c+1:]...)
				}
				ord = append(ord, rest[0])
				it.order = ord
			}
		}
		return it
	}
	panic(engineErr(fmt.Sprintf("range over %T", x)))
}

func (it *iter) next(in *Interp, ins *ssa.Next) Value {
	F := in.F
	if it.str != nil {
		s := *it.str
		if it.pos >= s.Len() {
			return TupleV{F.Bool(false), F.Const(64, 0), F.Const(32, 0)}
		}
		// decode one rune; ASCII fast path works for symbolic bytes under a recorded assumption
		if s.sym == nil {
			r, size := decodeRune(s.s[it.pos:])
			res := TupleV{F.Bool(true), F.Const(64, uint64(it.pos)), F.Const(32, uint64(r))}
			it.pos += size
			return res
		}
		b := s.sym[it.pos]
		if !b.konst {
			in.assumeNoted(F.ULt(b, F.Const(8, 0x80)), "symbolic string bytes ranged over are ASCII")
		} else if b.cv >= 0x80 {
			cs, ok := s.Concrete()
			if !ok {
				panic(&pathEnd{kind: "unsupported", msg: "range over non-ASCII partially symbolic string"})
			}
			r, size := decodeRune(cs[it.pos:])
			res := TupleV{F.Bool(true), F.Const(64, uint64(it.pos)), F.Const(32, uint64(r))}
			it.pos += size
			return res
		}
		res := TupleV{F.Bool(true), F.Const(64, uint64(it.pos)), F.ZExt(b, 32)}
		it.pos++
		return res
	}
	// map
	for it.pos < len(it.order) {
		e := it.m.entries[it.order[it.pos]]
		it.pos++
		if e == nil {
			continue // deleted during iteration
		}
		return TupleV{F.Bool(true), e.k, copyVal(e.v)}
	}
	var kz, vz Value
	if it.m != nil || true {
		// zero values of the right types are not observable when ok is false
		kz, vz = nil, nil
	}
	return TupleV{F.Bool(false), kz, vz}
}

func decodeRune(s string) (rune, int) {
	for i, r := range s {
		_ = i
		n := len(string(r))
		if r == 0xFFFD {
			// invalid encoding consumes one byte
			if len(s) >= 3 && s[:3] == "�" {
				return r, 3
			}
			return r, 1
		}
		return r, n
	}
	return 0, 0
}

// ---------- type assertions

func (in *Interp) implements(dyn types.Type, iface *types.Interface) bool {
	key := typeKey(dyn) + "<:" + iface.String()
	if v, ok := in.eng.implCache.Load(key); ok {
		return v.(bool)
	}
	r := types.Implements(dyn, iface)
	in.eng.implCache.Store(key, r)
	return r
}

func (in *Interp) typeAssert(ins *ssa.TypeAssert, x Iface) Value {
	at := ins.AssertedType
	ok := false
	if x.t != nil {
		if it, isI := at.Underlying().(*types.Interface); isI {
			ok = in.implements(x.t, it)
		} else {
			ok = types.Identical(x.t, at)
		}
	}
	var v Value
	if ok {
		if _, isI := at.Underlying().(*types.Interface); isI {
			v = x
		} else {
			v = x.v
		}
	}
	if ins.CommaOk {
		if !ok {
			v = in.zero(at)
		}
		return TupleV{v, in.F.Bool(ok)}
	}
	if !ok {
		dyn := "nil"
		if x.t != nil {
			dyn = x.t.String()
		}
		in.goPanicRuntime(fmt.Sprintf("interface conversion: interface is %s, not %s", dyn, at))
	}
	return v
}

// ---------- builtins

func (in *Interp) callBuiltin(caller *Frame, b *ssa.Builtin, args []Value, site ssa.Instruction) Value {
	F := in.F
	switch b.Name() {
	case "len":
		switch x := args[0].(type) {
		case Str:
			return F.Const(64, uint64(x.Len()))
		case SliceV:
			return in.lenTerm(x)
		case *MapV:
			if x == nil {
				return F.Const(64, 0)
			}
			if x.symKeys {
				// entries may alias under symbolic keys only if inserted without find; mapSet always finds first
			}
			return F.Const(64, uint64(x.length()))
		case *ChanV:
			if x == nil {
				return F.Const(64, 0)
			}
			return F.Const(64, uint64(len(x.buf)))
		case *Ptr: // pointer to array
			get, _ := in.navigateSym(x)
			return F.Const(64, uint64(len(get().(*ArrayV).e)))
		case *ArrayV:
			return F.Const(64, uint64(len(x.e)))
		}
	case "cap":
		switch x := args[0].(type) {
		case SliceV:
			return F.Const(64, uint64(x.cap))
		case *ChanV:
			if x == nil {
				return F.Const(64, 0)
			}
			return F.Const(64, uint64(x.cap))
		case *ArrayV:
			return F.Const(64, uint64(len(x.e)))
		case *Ptr:
			get, _ := in.navigateSym(x)
			return F.Const(64, uint64(len(get().(*ArrayV).e)))
		}
	case "append":
		s := args[0].(SliceV)
		var add []Value
		switch y := args[1].(type) {
		case SliceV:
			if y.slen != nil {
				// append(concrete-length, symbolic-length...): the result has symbolic length
				if s.slen != nil {
					panic(&pathEnd{kind: "unsupported", msg: "append to a symbolic-length slice"})
				}
				et := b.Type().(*types.Signature).Results().At(0).Type().Underlying().(*types.Slice).Elem()
				ns := in.makeSlice(et, s.len+y.len, s.len+y.len)
				arr := ns.obj.val.(*ArrayV)
				for i, v := range in.sliceElems(s) {
					arr.e[i] = copyVal(v)
				}
				src := y.obj.val.(*ArrayV).e[y.off : y.off+y.len]
				for i, v := range src {
					arr.e[s.len+i] = copyVal(v)
				}
				ns.slen = in.F.Add(in.F.Const(64, uint64(s.len)), y.slen)
				return ns
			}
			add = in.sliceElems(y)
		case Str:
			for _, t := range in.strBytes(y) {
				add = append(add, t)
			}
		case nil:
		default:
			panic(engineErr(fmt.Sprintf("append of %T", y)))
		}
		if len(add) == 0 {
			return s
		}
		et := b.Type().(*types.Signature).Results().At(0).Type().Underlying().(*types.Slice).Elem()
		return in.appendVals(et, s, add)
	case "copy":
		dst := args[0].(SliceV)
		var src []Value
		switch y := args[1].(type) {
		case SliceV:
			if y.slen != nil {
				// symbolic-length source: supported only when the copy cannot change any
				// modelled cell (source and destination cells are the same terms, e.g. zero-filled buffers)
				var dcells []Value
				if dst.obj != nil {
					dcells = dst.obj.val.(*ArrayV).e[dst.off : dst.off+dst.len]
				}
				scells := y.obj.val.(*ArrayV).e[y.off : y.off+y.len]
				n := len(scells)
				if len(dcells) < n {
					n = len(dcells)
				}
				for i := 0; i < n; i++ {
					if scells[i] != dcells[i] {
						panic(&pathEnd{kind: "unsupported", msg: "copy from a symbolic-length slice with differing content"})
					}
				}
				dl := in.lenTerm(dst)
				return F.Ite(F.ULt(dl, y.slen), dl, y.slen)
			}
			src = in.sliceElems(y)
		case Str:
			for _, t := range in.strBytes(y) {
				src = append(src, t)
			}
		}
		if dst.slen != nil {
			// copy into a symbolic-length destination: count = min(slen, len(src));
			// cell i receives src[i] exactly when i < slen.
			if len(src) > dst.len {
				panic(&pathEnd{kind: "unsupported", msg: "copy source longer than the modelled cells of a symbolic-length slice"})
			}
			cells := dst.obj.val.(*ArrayV).e[dst.off : dst.off+dst.len]
			for i, sv := range src {
				st, ok1 := sv.(*Term)
				dt, ok2 := cells[i].(*Term)
				if !ok1 || !ok2 {
					panic(&pathEnd{kind: "unsupported", msg: "copy of non-scalar elements into a symbolic-length slice"})
				}
				cells[i] = F.Ite(F.ULt(F.Const(64, uint64(i)), dst.slen), st, dt)
			}
			ls := F.Const(64, uint64(len(src)))
			return F.Ite(F.ULt(dst.slen, ls), dst.slen, ls)
		}
		n := dst.len
		if len(src) < n {
			n = len(src)
		}
		if n > 0 {
			tmp := make([]Value, n)
			for i := 0; i < n; i++ {
				tmp[i] = copyVal(src[i])
			}
			d := in.sliceElems(dst)
			copy(d, tmp)
		}
		return F.Const(64, uint64(n))
	case "delete":
		m := args[0].(*MapV)
		in.mapDelete(m, args[1])
		return nil
	case "close":
		in.chanClose(args[0])
		return nil
	case "panic":
		panic(&GoPanic{val: args[0], trace: in.posOf(site)})
	case "recover":
		if caller != nil && !caller.panicking && caller.caller != nil && caller.caller.panicking {
			caller.caller.panicking = false
			p := caller.caller.panicVal
			caller.caller.panicVal = nil
			if iv, ok := p.val.(Iface); ok {
				return iv
			}
			return Iface{t: types.Typ[types.String], v: Str{s: "panic"}}
		}
		return Iface{}
	case "print", "println":
		return nil
	case "min", "max":
		res := args[0]
		for _, a := range args[1:] {
			var less *Term
			sig := b.Type().(*types.Signature)
			t := sig.Params().At(0).Type()
			if b.Name() == "min" {
				less = in.binop(token.LSS, t, a, res, nil).(*Term)
			} else {
				less = in.binop(token.GTR, t, a, res, nil).(*Term)
			}
			if rt, ok := res.(*Term); ok {
				res = F.Ite(less, a.(*Term), rt)
			} else if in.decide(less) {
				res = a
			}
		}
		return res
	case "clear":
		switch x := args[0].(type) {
		case *MapV:
			if x != nil {
				x.entries = nil
				x.idx = map[string]int{}
				x.symKeys = false
			}
		case SliceV:
			et := b.Type().(*types.Signature).Params().At(0).Type().Underlying().(*types.Slice).Elem()
			els := in.sliceElems(x)
			for i := range els {
				els[i] = in.zero(et)
			}
		}
		return nil
	case "ssa:wrapnilchk":
		if p, ok := args[0].(*Ptr); ok && p == nil {
			in.goPanicRuntime("value method called using nil pointer")
		}
		return args[0]
	case "String": // unsafe.String(ptr, len)
		p := args[0].(*Ptr)
		n := int(in.concreteInt(args[1].(*Term), "unsafe.String len"))
		if n == 0 {
			return Str{}
		}
		if p == nil {
			in.goPanicRuntime("unsafe.String: ptr is nil and len is not zero")
		}
		arr, off := in.elemArray(p)
		bs := make([]*Term, n)
		for i := 0; i < n; i++ {
			bs[i] = arr.e[off+i].(*Term)
		}
		return in.strFromBytes(bs)
	case "SliceData":
		s := args[0].(SliceV)
		if s.obj == nil {
			return (*Ptr)(nil)
		}
		return &Ptr{obj: s.obj, path: []PE{{i: s.off}}}
	case "StringData":
		s := args[0].(Str)
		bs := in.strBytes(s)
		sl := in.makeSlice(types.Typ[types.Uint8], len(bs), len(bs))
		arr := sl.obj.val.(*ArrayV)
		for i, b := range bs {
			arr.e[i] = b
		}
		return &Ptr{obj: sl.obj, path: []PE{{i: 0}}}
	case "Slice": // unsafe.Slice(ptr, len)
		p := args[0].(*Ptr)
		n := int(in.concreteInt(args[1].(*Term), "unsafe.Slice len"))
		if p == nil {
			return SliceV{}
		}
		if len(p.path) == 1 {
			return SliceV{obj: p.obj, off: p.path[0].i, len: n, cap: n}
		}
	}
	panic(&pathEnd{kind: "unsupported", msg: fmt.Sprintf("builtin %s on %T", b.Name(), args[0])})
}

// elemArray: for a pointer to an array element returns the array and offset.
func (in *Interp) elemArray(p *Ptr) (*ArrayV, int) {
	if len(p.path) == 0 {
		panic(engineErr("elemArray: pointer to whole object"))
	}
	parent := &Ptr{obj: p.obj, path: p.path[:len(p.path)-1]}
	get, _ := in.navigateSym(parent)
	arr, ok := get().(*ArrayV)
	if !ok {
		panic(engineErr("elemArray: parent is not an array"))
	}
	return arr, p.path[len(p.path)-1].i
}

func (in *Interp) appendVals(et types.Type, s SliceV, add []Value) SliceV {
	n := s.len + len(add)
	if s.obj != nil && n <= s.cap {
		arr := s.obj.val.(*ArrayV)
		for i, v := range add {
			arr.e[s.off+s.len+i] = copyVal(v)
		}
		return SliceV{obj: s.obj, off: s.off, len: n, cap: s.cap}
	}
	// grow: Go's growth policy is implementation-defined; use doubling like the runtime for small slices
	nc := s.cap * 2
	if nc < n {
		nc = n
	}
	if s.cap == 0 && nc < 1 {
		nc = n
	}
	ns := in.makeSlice(et, n, nc)
	arr := ns.obj.val.(*ArrayV)
	old := in.sliceElems(s)
	for i, v := range old {
		arr.e[i] = copyVal(v)
	}
	for i, v := range add {
		arr.e[s.len+i] = copyVal(v)
	}
	return ns
}
