package main

import (
	"crypto/sha256"
	"encoding/json"
	"flag"
	"fmt"
	"go/types"
	"os"
	"os/exec"
	"path/filepath"
	"runtime"
	"runtime/debug"
	"runtime/pprof"
	"sort"
	"strings"
	"time"

	"golang.org/x/tools/go/packages"
	"golang.org/x/tools/go/ssa"
	"golang.org/x/tools/go/ssa/ssautil"
)

const (
	repoDir  = "/repo"
	verifDir = "/verif"
	modPath  = "github.com/pion/webrtc/v4"
)

type TierSpec struct {
	Params   map[string]int64 `json:"params"`
	Entries  []string         `json:"entries"`
	Unwind   int              `json:"unwind"`
	MaxSteps int              `json:"max_steps"`
	TimeoutS int              `json:"timeout_s"` // wall budget for exploration
	QueryMs  int              `json:"query_ms"`
	MaxPaths int              `json:"max_paths"`
	EntryParams map[string]map[string]int64 `json:"entry_params"` // tier-specific per-entry overrides
}

type Spec struct {
	Property    string            `json:"property"`
	Package     string            `json:"package"` // directory relative to /repo
	Entries     []string          `json:"entries"`
	Quick       TierSpec          `json:"quick"`
	Thorough    TierSpec          `json:"thorough"`
	UnwindBy    map[string]int    `json:"unwind_by"`
	AllowInit   []string          `json:"allow_init"`
	DenyPkgs    []string          `json:"deny_pkgs"`
	AllowPkgs   []string          `json:"allow_pkgs"`
	ExtraPackages []string        `json:"extra_packages"`
	Replace     map[string]string `json:"replace"` // real function -> harness function
	ReplaceFor  map[string]map[string]string `json:"replace_for"` // entry -> (real function -> harness function)
	Explanation string            `json:"explanation"`
	Bounds      map[string]string `json:"bounds"`
	Outside     []string          `json:"outside"`
	Assumptions []string          `json:"assumptions"`
	MapPermMax  int               `json:"map_perm_max"`
	EntryParams map[string]map[string]int64 `json:"entry_params"` // entry -> parameter overrides
	FairLoops   []string          `json:"fair_loops"` // functions whose spin loops are cut by a fairness assumption
	NoReplay    bool              `json:"no_replay"`
	ScheduleReplay map[string]bool `json:"schedule_replay"` // entries whose counterexamples depend on a schedule
	Solver      string            `json:"solver"` // z3 (4.8.12, default) | z3new (5.1.0) | cvc5
	ExtraFiles  map[string]string `json:"extra_files"` // overlay path relative to /repo -> file under harness dir
}

// replayParams are the tier's harness parameters, stored in every replay file so
// that the native run uses the same bounds as the symbolic one.
var replayParams map[string]int64

var solverUsed ="z3 4.8.12 (/usr/bin/z3 -in, incremental push/pop)"

type KnownFinding struct {
	Property string `json:"property"`
	Key      string `json:"key"`
	What     string `json:"what"`
	Status   string `json:"status"` // known | fixed
	Commit   string `json:"commit,omitempty"`
}

func main() {
	if len(os.Args) < 2 {
		fmt.Fprintln(os.Stderr, "usage: gosmt run|replay|selftest ...")
		os.Exit(2)
	}
	// the interpreter allocates heavily and memory is plentiful: collect less often
	debug.SetGCPercent(1000)
	// collect harder once the heap is large (long explorations keep little live data)
	debug.SetMemoryLimit(12 << 30)
	switch os.Args[1] {
	case "run":
		if p := os.Getenv("GOSMT_CPUPROFILE"); p != "" {
			f, _ := os.Create(p)
			pprof.StartCPUProfile(f)
			rc := cmdRun(os.Args[2:])
			pprof.StopCPUProfile()
			f.Close()
			os.Exit(rc)
		}
		os.Exit(cmdRun(os.Args[2:]))
	case "replay":
		os.Exit(cmdReplay(os.Args[2:]))
	case "selftest":
		os.Exit(cmdSelftest(os.Args[2:]))
	default:
		fmt.Fprintln(os.Stderr, "unknown command")
		os.Exit(2)
	}
}

func loadSpec(prop string) (*Spec, string, error) {
	dir := filepath.Join(verifDir, "harness", prop)
	b, err := os.ReadFile(filepath.Join(dir, "spec.json"))
	if err != nil {
		return nil, "", err
	}
	var s Spec
	if err := json.Unmarshal(b, &s); err != nil {
		return nil, "", fmt.Errorf("spec.json: %v", err)
	}
	return &s, dir, nil
}

// overlayFor maps harness sources into /repo without touching it.
func overlayFor(spec *Spec, hdir string) (map[string][]byte, error) {
	ov := map[string][]byte{}
	files, _ := filepath.Glob(filepath.Join(hdir, "*.go"))
	for _, f := range files {
		b, err := os.ReadFile(f)
		if err != nil {
			return nil, err
		}
		name := "zz_verif_" + strings.ToLower(spec.Property) + "_" + filepath.Base(f)
		ov[filepath.Join(repoDir, spec.Package, name)] = b
	}
	for rel, src := range spec.ExtraFiles {
		b, err := os.ReadFile(filepath.Join(hdir, src))
		if err != nil {
			return nil, err
		}
		ov[filepath.Join(repoDir, rel)] = b
	}
	vb, err := os.ReadFile(filepath.Join(verifDir, "harness", "zzverif", "verif.go"))
	if err != nil {
		return nil, err
	}
	ov[filepath.Join(repoDir, "internal", "zzverif", "verif.go")] = vb
	return ov, nil
}

func loadProgram(spec *Spec, ov map[string][]byte) (*ssa.Program, *ssa.Package, error) {
	cfg := &packages.Config{
		Mode:       packages.LoadAllSyntax,
		Dir:        repoDir,
		Overlay:    ov,
		BuildFlags: []string{"-tags=verif"},
		Env:        append(os.Environ(), "GOFLAGS=-mod=mod", "GOPROXY=off"),
	}
	pats := []string{"./" + spec.Package}
	for _, ep := range spec.ExtraPackages {
		pats = append(pats, "./"+ep)
	}
	pkgs, err := packages.Load(cfg, pats...)
	if err != nil {
		return nil, nil, err
	}
	var errs []string
	packages.Visit(pkgs, nil, func(p *packages.Package) {
		for _, e := range p.Errors {
			errs = append(errs, e.Error())
		}
	})
	if len(errs) > 0 {
		return nil, nil, fmt.Errorf("type errors: %s", strings.Join(errs[:minInt(len(errs), 5)], "; "))
	}
	prog, spkgs := ssautil.AllPackages(pkgs, ssa.InstantiateGenerics)
	prog.Build()
	if len(spkgs) == 0 || spkgs[0] == nil {
		return nil, nil, fmt.Errorf("no SSA package")
	}
	// the primary package is the one whose import path matches spec.Package
	want := modPath
	if spec.Package != "." && spec.Package != "" {
		want = modPath + "/" + spec.Package
	}
	for _, sp := range spkgs {
		if sp != nil && sp.Pkg.Path() == want {
			return prog, sp, nil
		}
	}
	return prog, spkgs[0], nil
}

// findEntry resolves "Func" (primary package) or "pkg/dir:Func".
func findEntry(prog *ssa.Program, primary *ssa.Package, name string) (*ssa.Function, string) {
	if i := strings.IndexByte(name, ':'); i >= 0 {
		dir, fn := name[:i], name[i+1:]
		want := modPath + "/" + dir
		if dir == "." || dir == "" {
			want = modPath
		}
		for _, p := range prog.AllPackages() {
			if p.Pkg.Path() == want {
				return p.Func(fn), dir
			}
		}
		return nil, dir
	}
	return primary.Func(name), ""
}

func minInt(a, b int) int {
	if a < b {
		return a
	}
	return b
}

type entryReport struct {
	Entry       string   `json:"entry"`
	Paths       int      `json:"paths"`
	ByStatus    map[string]int `json:"by_status"`
	Obligations int      `json:"obligations"`
	Discharged  int      `json:"discharged"`
	NonTrivial  int      `json:"nontrivial_paths"`
	Reached     []string `json:"reach_witnesses"`
	Queries     int      `json:"queries"`
	SolverS     float64  `json:"solver_time_s"`
	WallS       float64  `json:"wall_s"`
	Samples     []string `json:"samples"`
	Problems    []string `json:"problems,omitempty"`
}

func cmdRun(args []string) int {
	fs := flag.NewFlagSet("run", flag.ExitOnError)
	prop := fs.String("prop", "", "property id")
	tier := fs.String("tier", "quick", "quick|thorough")
	workers := fs.Int("workers", 0, "parallel workers")
	verbose := fs.Bool("v", false, "verbose")
	only := fs.String("entry", "", "run only this entry")
	solver := fs.String("solver", "z3", "z3|z3new|cvc5")
	noEvidence := fs.Bool("no-evidence", false, "do not write evidence")
	fs.Parse(args)
	start := time.Now()
	seed := 0
	if s := os.Getenv("VERIF_SEED"); s != "" {
		fmt.Sscanf(s, "%d", &seed)
	}
	spec, hdir, err := loadSpec(*prop)
	if err != nil {
		fmt.Printf("INCONCLUSIVE property=%s reason=spec: %v\n", *prop, err)
		return 3
	}
	ts := spec.Quick
	if *tier == "thorough" {
		ts = mergeTier(spec.Quick, spec.Thorough)
	}
	ov, err := overlayFor(spec, hdir)
	if err != nil {
		fmt.Printf("INCONCLUSIVE property=%s reason=overlay: %v\n", *prop, err)
		return 3
	}
	prog, pkg, err := loadProgram(spec, ov)
	if err != nil {
		fmt.Printf("INCONCLUSIVE property=%s reason=harness-does-not-typecheck: %v\n", *prop, err)
		writeEvidence(spec, *tier, seed, start, nil, nil, nil, []string{"load: " + err.Error()}, 0, nil, *noEvidence)
		return 3
	}
	eng := &Engine{
		prog: prog, harnessPkg: pkg,
		replace:  map[string]*ssa.Function{},
		maxSteps: 2000000, unwind: 64, unwindBy: spec.UnwindBy,
		timeoutMs: 20000, params: ts.Params,
		allowInit: map[string]bool{}, denyPkgs: map[string]bool{},
		mapPermMax: spec.MapPermMax, verbose: *verbose, maxPaths: ts.MaxPaths,
		fairLoops: map[string]bool{},
	}
	if eng.params == nil {
		eng.params = map[string]int64{}
	}
	for _, f := range spec.FairLoops {
		eng.fairLoops[f] = true
	}
	replayParams = eng.params
	if ts.Unwind > 0 {
		eng.unwind = ts.Unwind
	}
	if ts.MaxSteps > 0 {
		eng.maxSteps = ts.MaxSteps
	}
	if ts.QueryMs > 0 {
		eng.timeoutMs = ts.QueryMs
	}
	if *solver == "z3" && spec.Solver != "" {
		*solver = spec.Solver
	}
	switch *solver {
	case "z3new":
		eng.solverKind = Z3New
		solverUsed = "z3 5.1.0 (z3-new -in, incremental push/pop)"
	case "cvc5":
		eng.solverKind = CVC5
		solverUsed = "cvc5 1.0 (--incremental)"
	}
	for _, p := range defaultAllowInit {
		eng.allowInit[p] = true
	}
	for _, p := range spec.AllowInit {
		eng.allowInit[p] = true
	}
	for _, p := range defaultDeny {
		eng.denyPkgs[p] = true
	}
	for _, p := range spec.DenyPkgs {
		eng.denyPkgs[p] = true
	}
	for _, p := range spec.AllowPkgs {
		delete(eng.denyPkgs, p)
	}
	if rp := prog.ImportedPackage("runtime"); rp != nil {
		if t := rp.Type("errorString"); t != nil {
			eng.runtimeErrType = t.Type()
		}
	}
	for real, h := range spec.Replace {
		hf := pkg.Func(h)
		if hf == nil {
			fmt.Printf("INCONCLUSIVE property=%s reason=replacement %s not found\n", *prop, h)
			return 3
		}
		eng.replace[real] = hf
	}
	entries := ts.Entries
	if len(entries) == 0 {
		entries = spec.Entries
	}
	if *only != "" {
		entries = []string{*only}
	}
	nw := *workers
	if nw <= 0 {
		nw = runtime.NumCPU()
	}
	var reports []*entryReport
	var allViol []*Violation
	var problems []string
	funcs := map[*ssa.Function]bool{}
	assumes := map[string]bool{}
	budget := time.Duration(ts.TimeoutS) * time.Second
	for _, en := range entries {
		fn, _ := findEntry(prog, pkg, en)
		if fn == nil {
			problems = append(problems, "entry not found: "+en)
			continue
		}
		// parameters overridden for this entry only
		eng.params = map[string]int64{}
		for k, v := range ts.Params {
			eng.params[k] = v
		}
		for k, v := range spec.EntryParams[en] {
			eng.params[k] = v
		}
		for k, v := range ts.EntryParams[en] {
			eng.params[k] = v
		}
		replayParams = eng.params
		// replacements that apply to this entry only
		eng.replace = map[string]*ssa.Function{}
		for real, h := range spec.Replace {
			eng.replace[real] = pkg.Func(h)
		}
		for real, h := range spec.ReplaceFor[en] {
			hf := fn.Pkg.Func(h)
			if hf == nil {
				problems = append(problems, "replacement not found: "+h)
				continue
			}
			eng.replace[real] = hf
		}
		var deadline time.Time
		if budget > 0 {
			deadline = time.Now().Add(budget)
		}
		t0 := time.Now()
		x := eng.Explore(fn, nw, deadline)
		rep := &entryReport{Entry: en, ByStatus: map[string]int{}, Paths: x.paths, Queries: x.queries, SolverS: x.solverT.Seconds(), WallS: time.Since(t0).Seconds()}
		reached := map[string]bool{}
		for _, r := range x.results {
			rep.ByStatus[r.Status]++
			rep.Obligations += r.Obligations
			rep.Discharged += r.Discharged
			if r.NonTrivial {
				rep.NonTrivial++
			}
			for k := range r.Reached {
				reached[k] = true
			}
			for f := range r.Funcs {
				funcs[f] = true
			}
			for _, a := range r.Assumes {
				assumes[a] = true
			}
			for _, v := range r.Violations {
				v.Harness = en
				allViol = append(allViol, v)
			}
			switch r.Status {
			case "ok", "assume", "deadlock":
			default:
				msg := fmt.Sprintf("%s: path %s: %s", en, r.Status, firstLine(r.Msg))
				if len(rep.Problems) < 5 {
					rep.Problems = append(rep.Problems, msg)
				}
				if *verbose {
					fmt.Fprintln(os.Stderr, "PROBLEM", en, r.Status, r.Msg)
				}
			}
			if *verbose && os.Getenv("GOSMT_DEBUG") != "" && len(r.Observed) > 0 && rep.Paths > 0 && len(rep.Samples) < 2 {
				for _, o := range r.Observed {
					fmt.Fprintln(os.Stderr, "OBSERVED", o)
				}
			}
			if len(rep.Samples) < 5 && r.Status == "ok" && r.Sample != "" {
				rep.Samples = append(rep.Samples, r.Sample)
			}
		}
		rep.Reached = sortedKeys(reached)
		if x.stopped {
			rep.Problems = append(rep.Problems, fmt.Sprintf("%s: exploration stopped early (budget) with %d prefixes pending", en, len(x.frontier)))
		}
		for _, e := range x.errors {
			rep.Problems = append(rep.Problems, en+": "+e)
		}
		// vacuity: every Reach label mentioned in the harness source must be witnessed
		for _, lbl := range reachLabels(hdir, en) {
			if !reached[lbl] {
				rep.Problems = append(rep.Problems, fmt.Sprintf("%s: reach label %q never witnessed (vacuous)", en, lbl))
			}
		}
		problems = append(problems, rep.Problems...)
		reports = append(reports, rep)
		if *verbose {
			fmt.Fprintf(os.Stderr, "%s: paths=%d status=%v obligations=%d/%d queries=%d solver=%.1fs wall=%.1fs\n", en, rep.Paths, rep.ByStatus, rep.Discharged, rep.Obligations, rep.Queries, rep.SolverS, rep.WallS)
		}
	}

	// ---- violations: dedupe by key, match known findings, replay the rest
	known := loadKnown()
	byKey := map[string]*Violation{}
	var keys []string
	for _, v := range allViol {
		if _, ok := byKey[v.Key]; !ok {
			byKey[v.Key] = v
			keys = append(keys, v.Key)
		}
	}
	sort.Strings(keys)
	exit := 0
	nviol := 0
	var knownHit []string
	for _, k := range keys {
		v := byKey[k]
		if kf := matchKnown(known, spec.Property, k); kf != nil {
			fmt.Printf("KNOWN-FINDING: property=%s %s [%s]\n", spec.Property, kf.What, k)
			knownHit = append(knownHit, k)
			continue
		}
		path := writeReplay(spec, v)
		if spec.NoReplay || spec.ScheduleReplay[v.Harness] {
			// Schedule-dependent counterexamples cannot be forced onto the native Go
			// scheduler; they are confirmed by re-executing the real SSA concretely inside
			// the executor with the model's inputs and the recorded schedule.
			fn, _ := findEntry(prog, pkg, v.Harness)
			confirmed, detail := eng.ReplayConcrete(fn, v)
			if confirmed {
				fmt.Printf("VIOLATION property=%s replay=%s\n", spec.Property, path)
				fmt.Printf("  key=%s detail=%s (confirmed by concrete re-execution of the recorded schedule)\n", v.Key, v.Detail)
				nviol++
				exit = 1
			} else {
				problems = append(problems, fmt.Sprintf("replay-mismatch for %s (concrete re-execution: %s)", k, detail))
			}
			continue
		}
		ok, out := nativeReplay(spec, hdir, path)
		switch ok {
		case replayFails:
			fmt.Printf("VIOLATION property=%s replay=%s\n", spec.Property, path)
			fmt.Printf("  key=%s detail=%s\n", v.Key, v.Detail)
			nviol++
			exit = 1
		case replayPasses:
			problems = append(problems, fmt.Sprintf("replay-mismatch for %s (counterexample does not reproduce natively)", k))
			if *verbose {
				fmt.Fprintln(os.Stderr, out)
			}
		default:
			problems = append(problems, fmt.Sprintf("replay could not run for %s: %s", k, firstLine(out)))
			if *verbose {
				fmt.Fprintln(os.Stderr, out)
			}
		}
	}
	profileDump()
	writeEvidence(spec, *tier, seed, start, reports, funcs, assumes, problems, nviol, knownHit, *noEvidence)
	if exit == 0 && len(problems) > 0 {
		for _, p := range problems {
			fmt.Printf("INCONCLUSIVE property=%s reason=%s\n", spec.Property, p)
		}
		return 3
	}
	if exit == 0 {
		tot, dis, paths := 0, 0, 0
		for _, r := range reports {
			tot += r.Obligations
			dis += r.Discharged
			paths += r.Paths
		}
		fmt.Printf("OK property=%s tier=%s paths=%d obligations=%d discharged=%d known=%d wall=%.1fs\n", spec.Property, *tier, paths, tot, dis, len(knownHit), time.Since(start).Seconds())
	}
	return exit
}

func hasSchedChoices(spec *Spec) bool { return false }

func mergeTier(q, t TierSpec) TierSpec {
	r := t
	if r.Params == nil {
		r.Params = map[string]int64{}
	}
	for k, v := range q.Params {
		if _, ok := r.Params[k]; !ok {
			r.Params[k] = v
		}
	}
	if len(r.Entries) == 0 {
		r.Entries = q.Entries
	}
	if r.Unwind == 0 {
		r.Unwind = q.Unwind
	}
	if r.MaxSteps == 0 {
		r.MaxSteps = q.MaxSteps
	}
	if r.TimeoutS == 0 {
		r.TimeoutS = q.TimeoutS
	}
	if r.QueryMs == 0 {
		r.QueryMs = q.QueryMs
	}
	return r
}

// tierParameters reports the harness parameters this run actually used.
func tierParameters(spec *Spec, tier string) map[string]interface{} {
	ts := spec.Quick
	if tier == "thorough" {
		ts = mergeTier(spec.Quick, spec.Thorough)
	}
	entries := ts.Entries
	if len(entries) == 0 {
		entries = spec.Entries
	}
	out := map[string]interface{}{"params": ts.Params, "entries": entries}
	if ts.Unwind != 0 {
		out["unwind"] = ts.Unwind
	}
	if len(ts.EntryParams) != 0 {
		out["entry_params"] = ts.EntryParams
	}
	if len(spec.EntryParams) != 0 {
		out["entry_params_all_tiers"] = spec.EntryParams
	}
	return out
}

func firstLine(s string) string {
	if i := strings.IndexByte(s, '\n'); i >= 0 {
		return s[:i]
	}
	return s
}

var defaultAllowInit = []string{"io", "errors", "strconv", "bufio", "bytes", "strings", "encoding/binary", "encoding/hex", "sort",
	"github.com/pion/sdp/v3", "github.com/pion/rtp", "github.com/pion/rtp/codecs", "github.com/pion/rtcp", "github.com/pion/logging", "github.com/pion/randutil"}

var defaultDeny = []string{"reflect", "internal/reflectlite", "os", "net", "syscall", "runtime", "fmt", "crypto/rand", "math/rand", "encoding/json", "regexp", "context"}

func reachLabels(hdir, entry string) []string {
	// labels are declared in the harness as verif.Reach("label") ; collect those inside the file textually
	var out []string
	if i := strings.IndexByte(entry, ':'); i >= 0 {
		entry = entry[i+1:]
	}
	files, _ := filepath.Glob(filepath.Join(hdir, "*.go*"))
	for _, f := range files {
		b, _ := os.ReadFile(f)
		src := string(b)
		// split by top-level func to attribute labels to entries
		idx := strings.Index(src, "func "+entry+"(")
		if idx < 0 {
			continue
		}
		rest := src[idx:]
		if j := strings.Index(rest[5:], "\nfunc "); j >= 0 {
			rest = rest[:j+5]
		}
		for {
			k := strings.Index(rest, "verif.Reach(\"")
			if k < 0 {
				break
			}
			rest = rest[k+len("verif.Reach(\""):]
			e := strings.IndexByte(rest, '"')
			if e < 0 {
				break
			}
			out = append(out, rest[:e])
		}
	}
	return out
}

func loadKnown() []KnownFinding {
	b, err := os.ReadFile(filepath.Join(verifDir, "known_findings.json"))
	if err != nil {
		return nil
	}
	var k struct {
		Findings []KnownFinding `json:"findings"`
	}
	if json.Unmarshal(b, &k) != nil {
		return nil
	}
	return k.Findings
}

func matchKnown(ks []KnownFinding, prop, key string) *KnownFinding {
	for i := range ks {
		if ks[i].Property == prop && ks[i].Key == key && ks[i].Status != "fixed" {
			return &ks[i]
		}
	}
	return nil
}

type ReplayFile struct {
	Property string            `json:"property"`
	Entry    string            `json:"entry"`
	Package  string            `json:"package"`
	Label    string            `json:"label"`
	Key      string            `json:"key"`
	Kind     string            `json:"kind"`
	Detail   string            `json:"detail"`
	Model    map[string]uint64 `json:"model"`
	Choices  []int             `json:"choices,omitempty"`
	Params   map[string]int64  `json:"params,omitempty"`
}

func writeReplay(spec *Spec, v *Violation) string {
	dir := filepath.Join(verifDir, "replays")
	os.MkdirAll(dir, 0o755)
	pkgDir, entry := spec.Package, v.Harness
	if i := strings.IndexByte(entry, ':'); i >= 0 {
		pkgDir, entry = entry[:i], entry[i+1:]
	}
	rf := ReplayFile{Property: spec.Property, Entry: entry, Package: pkgDir, Label: v.Label, Key: v.Key, Kind: v.Kind, Detail: v.Detail, Model: v.Model, Choices: v.Choices, Params: replayParams}
	b, _ := json.MarshalIndent(rf, "", " ")
	h := sha256.Sum256([]byte(v.Key + v.Harness))
	p := filepath.Join(dir, fmt.Sprintf("%s-%x.json", spec.Property, h[:5]))
	os.WriteFile(p, b, 0o644)
	return p
}

type replayOutcome int

const (
	replayError replayOutcome = iota
	replayFails               // violation reproduces natively
	replayPasses
)

// nativeReplay compiles the same harness against the real build and runs it
// on the model's input values.
func nativeReplay(spec *Spec, hdir string, replayPath string) (replayOutcome, string) {
	b, err := os.ReadFile(replayPath)
	if err != nil {
		return replayError, err.Error()
	}
	var rf ReplayFile
	if err := json.Unmarshal(b, &rf); err != nil {
		return replayError, err.Error()
	}
	tmp, err := os.MkdirTemp("", "gosmt-replay-")
	if err != nil {
		return replayError, err.Error()
	}
	defer os.RemoveAll(tmp)
	ov, err := overlayFor(spec, hdir)
	if err != nil {
		return replayError, err.Error()
	}
	pkgName := packageNameOf(filepath.Join(repoDir, rf.Package))
	test := fmt.Sprintf(`//go:build verif

package %s

import (
	"testing"

	verif "%s/internal/zzverif"
)

func TestVerifReplay(t *testing.T) {
	verif.LoadReplay()
	defer verif.Finish()
	%s()
}
`, pkgName, modPath, rf.Entry)
	ov[filepath.Join(repoDir, rf.Package, "zz_verif_replay_test.go")] = []byte(test)
	repl := map[string]string{}
	i := 0
	for virt, content := range ov {
		real := filepath.Join(tmp, fmt.Sprintf("f%d.go", i))
		i++
		os.WriteFile(real, content, 0o644)
		repl[virt] = real
	}
	ovb, _ := json.Marshal(map[string]interface{}{"Replace": repl})
	ovPath := filepath.Join(tmp, "overlay.json")
	os.WriteFile(ovPath, ovb, 0o644)
	cmd := exec.Command("go", "test", "-v", "-tags", "verif", "-vet=off", "-count=1", "-overlay", ovPath, "-run", "^TestVerifReplay$", "-timeout", "120s", "./"+rf.Package)
	cmd.Dir = repoDir
	cmd.Env = append(os.Environ(), "GOFLAGS=-mod=mod", "GOPROXY=off", "VERIF_REPLAY="+replayPath)
	out, err := cmd.CombinedOutput()
	so := string(out)
	switch {
	case strings.Contains(so, "VERIF-ASSUME-FALSE"):
		return replayPasses, so
	case strings.Contains(so, "VERIF-ASSERT-FAIL") || strings.Contains(so, "panic:") || strings.Contains(so, "fatal error:"):
		return replayFails, so
	case strings.Contains(so, "VERIF-REPLAY-DONE") && err == nil:
		return replayPasses, so
	}
	return replayError, so
}

func packageNameOf(dir string) string {
	files, _ := filepath.Glob(filepath.Join(dir, "*.go"))
	for _, f := range files {
		if strings.HasSuffix(f, "_test.go") {
			continue
		}
		b, _ := os.ReadFile(f)
		for _, line := range strings.Split(string(b), "\n") {
			if strings.HasPrefix(line, "package ") {
				return strings.TrimSpace(strings.TrimPrefix(line, "package "))
			}
		}
	}
	return "webrtc"
}

func cmdReplay(args []string) int {
	if len(args) < 1 {
		fmt.Fprintln(os.Stderr, "usage: gosmt replay <file>")
		return 2
	}
	b, err := os.ReadFile(args[0])
	if err != nil {
		fmt.Fprintln(os.Stderr, err)
		return 2
	}
	var rf ReplayFile
	json.Unmarshal(b, &rf)
	spec, hdir, err := loadSpec(rf.Property)
	if err != nil {
		fmt.Fprintln(os.Stderr, err)
		return 2
	}
	r, out := nativeReplay(spec, hdir, args[0])
	fmt.Println(out)
	switch r {
	case replayFails:
		fmt.Printf("VIOLATION property=%s replay=%s\n", rf.Property, args[0])
		return 1
	case replayPasses:
		fmt.Println("replay passes (no violation)")
		return 0
	}
	return 3
}

func writeEvidence(spec *Spec, tier string, seed int, start time.Time, reports []*entryReport, funcs map[*ssa.Function]bool, assumes map[string]bool, problems []string, nviol int, knownHit []string, skip bool) {
	if skip {
		return
	}
	type fe struct {
		Name string `json:"name"`
		Hash string `json:"ssa_sha256"`
	}
	var fes []fe
	for f := range funcs {
		if f.Pkg == nil || !strings.HasPrefix(f.Pkg.Pkg.Path(), modPath) || strings.Contains(f.Pkg.Pkg.Path(), "zzverif") {
			continue
		}
		if strings.HasPrefix(f.Name(), "Verif") || strings.HasPrefix(f.Name(), "verif") || f.Name() == "init" {
			continue
		}
		var sb strings.Builder
		f.WriteTo(&sb)
		h := sha256.Sum256([]byte(sb.String()))
		fes = append(fes, fe{Name: f.String(), Hash: fmt.Sprintf("%x", h[:8])})
	}
	sort.Slice(fes, func(i, j int) bool { return fes[i].Name < fes[j].Name })
	paths, obl, dis, nt, q := 0, 0, 0, 0, 0
	st := 0.0
	var samples []interface{}
	for _, r := range reports {
		paths += r.Paths
		obl += r.Obligations
		dis += r.Discharged
		nt += r.NonTrivial
		q += r.Queries
		st += r.SolverS
		for _, s := range r.Samples {
			samples = append(samples, map[string]string{"entry": r.Entry, "path_decisions": s})
		}
	}
	if len(samples) == 0 {
		samples = append(samples, "no completed path")
	}
	as := []string{"trusted: go/packages + go/ssa translation, gosmt executor and intrinsics, z3"}
	as = append(as, spec.Assumptions...)
	for a := range assumes {
		as = append(as, "engine: "+a)
	}
	sort.Strings(as)
	cov := map[string]interface{}{
		"explanation":         spec.Explanation,
		"evaluations":         paths,
		"distinct_nontrivial": nt,
		"rule":                "one evaluation = one explored symbolic path (a distinct sequence of feasible branch decisions) of the harness over the real SSA; non-trivial = the path issued at least one solver query on a non-constant condition",
		"samples":             samples,
		"obligations":         obl,
		"discharged":          dis,
		"functions_encoded":   fes,
		"bounds":              spec.Bounds,
		"tier_parameters":     tierParameters(spec, tier),
		"outside_claim":       spec.Outside,
		"queries":             q,
		"solver_time_s":       st,
		"solvers":             []string{solverUsed},
		"entries":             reports,
		"inconclusive":        problems,
		"known_findings_hit":  knownHit,
		"exhaustive":          len(problems) == 0,
	}
	ev := map[string]interface{}{
		"property_id": spec.Property,
		"tier":        tier,
		"seed":        seed,
		"level":       "other",
		"coverage":    cov,
		"assumptions": as,
		"wall_s":      time.Since(start).Seconds(),
		"violations":  nviol,
	}
	b, _ := json.MarshalIndent(ev, "", " ")
	os.MkdirAll(filepath.Join(verifDir, "evidence"), 0o755)
	os.WriteFile(filepath.Join(verifDir, "evidence", spec.Property+".json"), b, 0o644)
}

var _ = types.Universe
