package main

// Value representation of the symbolic interpreter.

import (
	"fmt"
	"go/types"
	"reflect"
	"strings"

	"golang.org/x/tools/go/ssa"
)

type Value interface{}

// scalars: *Term

// Str is a Go string. When sym == nil the string is concrete (s).
// Otherwise sym holds one 8-bit term per byte.
type Str struct {
	s   string
	sym []*Term
}

// Object is a heap cell (variable, allocation, global).
type Object struct {
	id   int
	val  Value
	typ  types.Type
	name string
	// synchronisation state for sync.Mutex etc. is kept in the value itself.
}

// Ptr points at a sub-value of an object. A nil pointer is (*Ptr)(nil).
type Ptr struct {
	obj  *Object
	path []PE
}

// PE is one step of a path: field/array index (concrete i, or symbolic t).
type PE struct {
	i int
	t *Term
}

type StructV struct{ f []Value }
type ArrayV struct{ e []Value }

// SliceV: backing array object + window. nil slice has obj == nil.
// When slen != nil the length is symbolic (a 64-bit term, 0 <= slen <= len):
// len then holds the maximum length and the cells up to len exist.
type SliceV struct {
	obj           *Object
	off, len, cap int
	slen          *Term
}

type Iface struct {
	t types.Type // dynamic type; nil for nil interface
	v Value
}

type MapEntry struct {
	k, v Value
}

type MapV struct {
	id      int
	entries []*MapEntry
	idx     map[string]int // concrete key string -> index in entries
	symKeys bool
	// arr != nil: a set (map[uintN]struct{}) whose membership is an SMT array
	// (BV kw -> BV 1); entries/idx are unused.
	arr *Term
	kw  int
}

type Closure struct {
	fn  *ssa.Function
	env []Value
}

// NativeFn is an engine-implemented function value.
type NativeFn struct {
	name string
	fn   func(in *Interp, args []Value) Value
}

type TupleV []Value

// Native wraps an opaque native Go value (e.g. *regexp.Regexp).
type Native struct{ v reflect.Value }

type ChanV struct {
	id     int
	buf    []Value
	cap    int
	closed bool
	// rendezvous for unbuffered channels
	recvWaiting int
	handoff     []Value // values handed to waiting receivers
}

// TypeKey gives a canonical string for a types.Type (for identity checks).
func typeKey(t types.Type) string { return types.TypeString(t, nil) }

func (in *Interp) konst(w int, v uint64) *Term { return in.F.Const(w, v) }

func strOf(s string) Str { return Str{s: s} }

func (s Str) Len() int {
	if s.sym != nil {
		return len(s.sym)
	}
	return len(s.s)
}

func (s Str) Concrete() (string, bool) {
	if s.sym == nil {
		return s.s, true
	}
	b := make([]byte, len(s.sym))
	for i, t := range s.sym {
		if !t.konst {
			return "", false
		}
		b[i] = byte(t.cv)
	}
	return string(b), true
}

func (in *Interp) strBytes(s Str) []*Term {
	if s.sym != nil {
		return s.sym
	}
	r := make([]*Term, len(s.s))
	for i := 0; i < len(s.s); i++ {
		r[i] = in.F.Const(8, uint64(s.s[i]))
	}
	return r
}

func (in *Interp) strFromBytes(b []*Term) Str {
	all := true
	for _, t := range b {
		if !t.konst {
			all = false
			break
		}
	}
	if all {
		bs := make([]byte, len(b))
		for i, t := range b {
			bs[i] = byte(t.cv)
		}
		return Str{s: string(bs)}
	}
	cp := make([]*Term, len(b))
	copy(cp, b)
	return Str{sym: cp}
}

func intWidth(t types.Type) (w int, signed bool, ok bool) {
	b, isB := t.Underlying().(*types.Basic)
	if !isB {
		return 0, false, false
	}
	switch b.Kind() {
	case types.Int8:
		return 8, true, true
	case types.Int16:
		return 16, true, true
	case types.Int32:
		return 32, true, true
	case types.Int64, types.Int, types.UntypedInt:
		return 64, true, true
	case types.Uint8:
		return 8, false, true
	case types.Uint16:
		return 16, false, true
	case types.Uint32:
		return 32, false, true
	case types.Uint64, types.Uint, types.Uintptr:
		return 64, false, true
	case types.UntypedRune:
		return 32, true, true
	}
	return 0, false, false
}

func isFloat(t types.Type) bool {
	b, ok := t.Underlying().(*types.Basic)
	return ok && b.Info()&types.IsFloat != 0
}

func isString(t types.Type) bool {
	b, ok := t.Underlying().(*types.Basic)
	return ok && b.Info()&types.IsString != 0
}

func isBool(t types.Type) bool {
	b, ok := t.Underlying().(*types.Basic)
	return ok && b.Info()&types.IsBoolean != 0
}

// zero returns the zero value of type t.
func (in *Interp) zero(t types.Type) Value {
	switch u := t.Underlying().(type) {
	case *types.Basic:
		if u.Kind() == types.UnsafePointer {
			return (*Ptr)(nil)
		}
		if u.Kind() == types.UntypedNil {
			return nil
		}
		if u.Info()&types.IsBoolean != 0 {
			return in.F.Bool(false)
		}
		if u.Info()&types.IsString != 0 {
			return Str{}
		}
		if u.Info()&types.IsFloat != 0 {
			return in.F.Float(0)
		}
		if w, _, ok := intWidth(u); ok {
			return in.F.Const(w, 0)
		}
		panic(engineErr("zero: unsupported basic type " + u.String()))
	case *types.Pointer:
		return (*Ptr)(nil)
	case *types.Struct:
		s := &StructV{f: make([]Value, u.NumFields())}
		for i := range s.f {
			s.f[i] = in.zero(u.Field(i).Type())
		}
		return s
	case *types.Array:
		n := int(u.Len())
		a := &ArrayV{e: make([]Value, n)}
		if n > 0 {
			et := u.Elem()
			if isImmutableZero(et) {
				z := in.zero(et)
				for i := range a.e {
					a.e[i] = z
				}
			} else {
				for i := range a.e {
					a.e[i] = in.zero(et)
				}
			}
		}
		return a
	case *types.Slice:
		return SliceV{}
	case *types.Interface:
		return Iface{}
	case *types.Map:
		return (*MapV)(nil)
	case *types.Chan:
		return (*ChanV)(nil)
	case *types.Signature:
		return (*Closure)(nil)
	case *types.Tuple:
		tv := make(TupleV, u.Len())
		for i := range tv {
			tv[i] = in.zero(u.At(i).Type())
		}
		return tv
	}
	panic(engineErr("zero: unsupported type " + t.String()))
}

func isImmutableZero(t types.Type) bool {
	switch t.Underlying().(type) {
	case *types.Struct, *types.Array:
		return false
	}
	return true
}

// copyVal deep-copies aggregates (structs and arrays are value types).
func copyVal(v Value) Value {
	switch x := v.(type) {
	case *StructV:
		n := &StructV{f: make([]Value, len(x.f))}
		for i, e := range x.f {
			n.f[i] = copyVal(e)
		}
		return n
	case *ArrayV:
		n := &ArrayV{e: make([]Value, len(x.e))}
		for i, e := range x.e {
			n.e[i] = copyVal(e)
		}
		return n
	}
	return v
}

type EngineError struct {
	msg     string
	located bool
}

func (e *EngineError) Error() string { return e.msg }
func engineErr(s string) *EngineError { return &EngineError{msg: s} }

func describe(v Value) string {
	switch x := v.(type) {
	case nil:
		return "nil"
	case *Term:
		if x.konst {
			if x.sort.K == SFP64 {
				return fmt.Sprint(x.fv)
			}
			return fmt.Sprint(x.cv)
		}
		return "<sym " + x.ref() + ">"
	case Str:
		if s, ok := x.Concrete(); ok {
			return fmt.Sprintf("%q", s)
		}
		return fmt.Sprintf("<symstr len %d>", x.Len())
	case *Ptr:
		if x == nil {
			return "nil-ptr"
		}
		return fmt.Sprintf("&obj%d%v", x.obj.id, x.path)
	case *StructV:
		var parts []string
		for _, e := range x.f {
			parts = append(parts, describe(e))
		}
		return "{" + strings.Join(parts, ",") + "}"
	case *ArrayV:
		return fmt.Sprintf("[%d]array", len(x.e))
	case SliceV:
		return fmt.Sprintf("slice(len=%d)", x.len)
	case Iface:
		if x.t == nil {
			return "nil-iface"
		}
		return "iface(" + x.t.String() + ":" + describe(x.v) + ")"
	case *MapV:
		return "map"
	case *Closure:
		if x == nil {
			return "nil-func"
		}
		return "func " + x.fn.String()
	case TupleV:
		var parts []string
		for _, e := range x {
			parts = append(parts, describe(e))
		}
		return "(" + strings.Join(parts, ",") + ")"
	}
	return fmt.Sprintf("%T", v)
}
