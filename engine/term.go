package main

// Hash-consed SMT terms with eager constant folding.
// Sorts: Bool, BitVec(w) and Float64 (FloatingPoint 11 53).

import (
	"fmt"
	"math"
	"math/bits"
	"strconv"
	"strings"
)

type SortKind uint8

const (
	SBool SortKind = iota
	SBV
	SFP64
	SArr // array (BV ia) -> (BV iv)
)

type Sort struct {
	K  SortKind
	W  int // bit width for SBV; value width for SArr
	IW int // index width for SArr
}

func (s Sort) String() string {
	switch s.K {
	case SBool:
		return "Bool"
	case SBV:
		return fmt.Sprintf("(_ BitVec %d)", s.W)
	case SFP64:
		return "(_ FloatingPoint 11 53)"
	case SArr:
		return fmt.Sprintf("(Array (_ BitVec %d) (_ BitVec %d))", s.IW, s.W)
	}
	return "?"
}

var BoolSort = Sort{K: SBool}

func BV(w int) Sort { return Sort{K: SBV, W: w} }

type Term struct {
	id    int
	op    string
	sort  Sort
	args  []*Term
	konst bool
	cv    uint64  // constant value (BV up to 64 bits, Bool 0/1)
	fv    float64 // constant float value
	name  string  // for variables
	p1    int     // parameters (extract hi / extend amount)
	p2    int
	f     *Factory
}

type Factory struct {
	tab   map[string]*Term
	next  int
	vars  []*Term
	varBy map[string]*Term
	ub    map[*Term]uint64 // unsigned upper bounds asserted on the current path
	consts map[constKey]*Term
	bytes  [256]*Term
	nonneg map[*Term]bool
	pendUB map[*Term]uint64
}

func NewFactory() *Factory {
	return &Factory{tab: map[string]*Term{}, varBy: map[string]*Term{}}
}

func mask(w int) uint64 {
	if w >= 64 {
		return ^uint64(0)
	}
	return (uint64(1) << uint(w)) - 1
}

func sext(v uint64, w int) int64 {
	if w >= 64 {
		return int64(v)
	}
	sh := uint(64 - w)
	return int64(v<<sh) >> sh
}

func (f *Factory) mk(op string, sort Sort, p1, p2 int, args ...*Term) *Term {
	var sb strings.Builder
	sb.WriteString(op)
	sb.WriteByte('|')
	sb.WriteString(strconv.Itoa(int(sort.K)*1000 + sort.W))
	sb.WriteByte('|')
	sb.WriteString(strconv.Itoa(p1))
	sb.WriteByte('|')
	sb.WriteString(strconv.Itoa(p2))
	for _, a := range args {
		sb.WriteByte(',')
		sb.WriteString(strconv.Itoa(a.id))
	}
	k := sb.String()
	if t, ok := f.tab[k]; ok {
		return t
	}
	t := &Term{id: f.next, op: op, sort: sort, args: args, p1: p1, p2: p2, f: f}
	f.next++
	f.tab[k] = t
	return t
}

func (f *Factory) Const(w int, v uint64) *Term {
	v &= mask(w)
	if w == 8 {
		if t := f.bytes[v]; t != nil {
			return t
		}
	}
	if f.consts == nil {
		f.consts = map[constKey]*Term{}
	}
	k := constKey{w, v}
	if t, ok := f.consts[k]; ok {
		return t
	}
	t := &Term{id: f.next, op: "const", sort: BV(w), konst: true, cv: v, f: f}
	f.next++
	f.consts[k] = t
	if w == 8 {
		f.bytes[v] = t
	}
	return t
}

type constKey struct {
	w int
	v uint64
}

func (f *Factory) Bool(b bool) *Term {
	k := "b|f"
	var v uint64
	if b {
		k = "b|t"
		v = 1
	}
	if t, ok := f.tab[k]; ok {
		return t
	}
	t := &Term{id: f.next, op: "const", sort: BoolSort, konst: true, cv: v, f: f}
	f.next++
	f.tab[k] = t
	return t
}

func (f *Factory) Float(v float64) *Term {
	k := "f|" + strconv.FormatUint(math.Float64bits(v), 16)
	if t, ok := f.tab[k]; ok {
		return t
	}
	t := &Term{id: f.next, op: "const", sort: Sort{K: SFP64}, konst: true, fv: v, f: f}
	f.next++
	f.tab[k] = t
	return t
}

// Var returns the variable with the given name, creating it on first use.
func (f *Factory) Var(name string, s Sort) *Term {
	if t, ok := f.varBy[name]; ok {
		if t.sort != s {
			panic("variable " + name + " redeclared with another sort")
		}
		return t
	}
	t := &Term{id: f.next, op: "var", sort: s, name: name, f: f}
	f.next++
	f.varBy[name] = t
	f.vars = append(f.vars, t)
	return t
}

func (t *Term) IsConst() bool { return t.konst }
func (t *Term) IsTrue() bool  { return t.konst && t.sort.K == SBool && t.cv == 1 }
func (t *Term) IsFalse() bool { return t.konst && t.sort.K == SBool && t.cv == 0 }
func (t *Term) W() int        { return t.sort.W }

// ---- boolean connectives

func (f *Factory) Not(a *Term) *Term {
	if a.konst {
		return f.Bool(a.cv == 0)
	}
	if a.op == "not" {
		return a.args[0]
	}
	return f.mk("not", BoolSort, 0, 0, a)
}

func (f *Factory) And(a, b *Term) *Term {
	if a.konst {
		if a.cv == 0 {
			return a
		}
		return b
	}
	if b.konst {
		if b.cv == 0 {
			return b
		}
		return a
	}
	if a == b {
		return a
	}
	if a.id > b.id {
		a, b = b, a
	}
	return f.mk("and", BoolSort, 0, 0, a, b)
}

func (f *Factory) Or(a, b *Term) *Term {
	if a.konst {
		if a.cv == 1 {
			return a
		}
		return b
	}
	if b.konst {
		if b.cv == 1 {
			return b
		}
		return a
	}
	if a == b {
		return a
	}
	if a.id > b.id {
		a, b = b, a
	}
	return f.mk("or", BoolSort, 0, 0, a, b)
}

func (f *Factory) Implies(a, b *Term) *Term { return f.Or(f.Not(a), b) }

func (f *Factory) Ite(c, a, b *Term) *Term {
	if c.konst {
		if c.cv == 1 {
			return a
		}
		return b
	}
	if a == b {
		return a
	}
	if a.sort.K == SBool {
		if a.konst && b.konst {
			if a.cv == 1 {
				return c
			}
			return f.Not(c)
		}
	}
	return f.mk("ite", a.sort, 0, 0, c, a, b)
}

func (f *Factory) Eq(a, b *Term) *Term {
	if a.sort != b.sort {
		panic(fmt.Sprintf("Eq sort mismatch %v %v", a.sort, b.sort))
	}
	if a == b && a.sort.K != SFP64 {
		return f.Bool(true)
	}
	if a.konst && b.konst {
		if a.sort.K == SFP64 {
			return f.Bool(a.fv == b.fv)
		}
		return f.Bool(a.cv == b.cv)
	}
	if a.sort.K == SBool {
		if a.konst {
			if a.cv == 1 {
				return b
			}
			return f.Not(b)
		}
		if b.konst {
			if b.cv == 1 {
				return a
			}
			return f.Not(a)
		}
	}
	if a.sort.K == SFP64 {
		return f.mk("fp.eq", BoolSort, 0, 0, a, b)
	}
	// ite(c, k1, k2) == k  simplification
	if b.konst && a.op == "ite" && a.args[1].konst && a.args[2].konst {
		t1 := a.args[1].cv == b.cv
		t2 := a.args[2].cv == b.cv
		switch {
		case t1 && t2:
			return f.Bool(true)
		case t1:
			return a.args[0]
		case t2:
			return f.Not(a.args[0])
		default:
			return f.Bool(false)
		}
	}
	if a.konst && b.op == "ite" {
		return f.Eq(b, a)
	}
	if a.id > b.id {
		a, b = b, a
	}
	return f.mk("=", BoolSort, 0, 0, a, b)
}

// ---- bit-vector operations

func (f *Factory) bin(op string, a, b *Term) *Term {
	if a.sort != b.sort {
		panic(fmt.Sprintf("%s sort mismatch %v %v", op, a.sort, b.sort))
	}
	w := a.sort.W
	if a.konst && b.konst {
		x, y := a.cv, b.cv
		var r uint64
		ok := true
		switch op {
		case "bvadd":
			r = x + y
		case "bvsub":
			r = x - y
		case "bvmul":
			r = x * y
		case "bvand":
			r = x & y
		case "bvor":
			r = x | y
		case "bvxor":
			r = x ^ y
		case "bvshl":
			if y >= uint64(w) {
				r = 0
			} else {
				r = x << y
			}
		case "bvlshr":
			if y >= uint64(w) {
				r = 0
			} else {
				r = x >> y
			}
		case "bvashr":
			sx := sext(x, w)
			if y >= uint64(w) {
				if sx < 0 {
					r = ^uint64(0)
				} else {
					r = 0
				}
			} else {
				r = uint64(sx >> y)
			}
		case "bvudiv":
			if y == 0 {
				r = mask(w)
			} else {
				r = x / y
			}
		case "bvurem":
			if y == 0 {
				r = x
			} else {
				r = x % y
			}
		case "bvsdiv":
			sx, sy := sext(x, w), sext(y, w)
			if sy == 0 {
				ok = false
			} else if sy == -1 {
				r = uint64(-sx)
			} else {
				r = uint64(sx / sy)
			}
		case "bvsrem":
			sx, sy := sext(x, w), sext(y, w)
			if sy == 0 {
				ok = false
			} else if sy == -1 {
				r = 0
			} else {
				r = uint64(sx % sy)
			}
		default:
			ok = false
		}
		if ok {
			return f.Const(w, r)
		}
	}
	// algebraic identities
	switch op {
	case "bvudiv", "bvurem", "bvsdiv", "bvsrem":
		if r := f.divRewrite(op, a, b); r != nil {
			return r
		}
	case "bvadd":
		if a.konst && a.cv == 0 {
			return b
		}
		if b.konst && b.cv == 0 {
			return a
		}
		// (x + k1) + k2 -> x + (k1+k2)
		if a.konst {
			a, b = b, a
		}
		if b.konst && a.op == "bvadd" {
			if a.args[0].konst {
				return f.bin("bvadd", a.args[1], f.Const(w, a.args[0].cv+b.cv))
			}
			if a.args[1].konst {
				return f.bin("bvadd", a.args[0], f.Const(w, a.args[1].cv+b.cv))
			}
		}
	case "bvsub":
		if b.konst && b.cv == 0 {
			return a
		}
		if a == b {
			return f.Const(w, 0)
		}
		// x - k -> x + (-k)
		if b.konst {
			return f.bin("bvadd", a, f.Const(w, -b.cv))
		}
	case "bvmul":
		if a.konst && a.cv == 1 {
			return b
		}
		if b.konst && b.cv == 1 {
			return a
		}
		if (a.konst && a.cv == 0) || (b.konst && b.cv == 0) {
			return f.Const(w, 0)
		}
	case "bvand":
		if a.konst && a.cv == 0 || b.konst && b.cv == 0 {
			return f.Const(w, 0)
		}
		if a.konst && a.cv == mask(w) {
			return b
		}
		if b.konst && b.cv == mask(w) {
			return a
		}
		if a == b {
			return a
		}
		// x & (2^k-1) == x when x provably fits
		if b.konst && b.cv&(b.cv+1) == 0 {
			if _, h, ok := f.urange(a); ok && h <= b.cv {
				return a
			}
		}
		if a.konst && a.cv&(a.cv+1) == 0 {
			if _, h, ok := f.urange(b); ok && h <= a.cv {
				return b
			}
		}
	case "bvor":
		if a.konst && a.cv == 0 {
			return b
		}
		if b.konst && b.cv == 0 {
			return a
		}
		if a == b {
			return a
		}
	case "bvxor":
		if a.konst && a.cv == 0 {
			return b
		}
		if b.konst && b.cv == 0 {
			return a
		}
	case "bvshl", "bvlshr", "bvashr":
		if b.konst && b.cv == 0 {
			return a
		}
	}
	switch op {
	case "bvadd", "bvmul", "bvand", "bvor", "bvxor":
		if a.id > b.id {
			a, b = b, a
		}
	}
	return f.mk(op, a.sort, 0, 0, a, b)
}

func (f *Factory) Add(a, b *Term) *Term  { return f.bin("bvadd", a, b) }
func (f *Factory) Sub(a, b *Term) *Term  { return f.bin("bvsub", a, b) }
func (f *Factory) Mul(a, b *Term) *Term  { return f.bin("bvmul", a, b) }
func (f *Factory) BAnd(a, b *Term) *Term { return f.bin("bvand", a, b) }
func (f *Factory) BOr(a, b *Term) *Term  { return f.bin("bvor", a, b) }
func (f *Factory) BXor(a, b *Term) *Term { return f.bin("bvxor", a, b) }
func (f *Factory) Shl(a, b *Term) *Term  { return f.bin("bvshl", a, b) }
func (f *Factory) LShr(a, b *Term) *Term { return f.bin("bvlshr", a, b) }
func (f *Factory) AShr(a, b *Term) *Term { return f.bin("bvashr", a, b) }
func (f *Factory) UDiv(a, b *Term) *Term { return f.bin("bvudiv", a, b) }
func (f *Factory) URem(a, b *Term) *Term { return f.bin("bvurem", a, b) }
func (f *Factory) SDiv(a, b *Term) *Term { return f.bin("bvsdiv", a, b) }
func (f *Factory) SRem(a, b *Term) *Term { return f.bin("bvsrem", a, b) }

func (f *Factory) BNot(a *Term) *Term {
	if a.konst {
		return f.Const(a.sort.W, ^a.cv)
	}
	if a.op == "bvnot" {
		return a.args[0]
	}
	return f.mk("bvnot", a.sort, 0, 0, a)
}

func (f *Factory) Neg(a *Term) *Term {
	if a.konst {
		return f.Const(a.sort.W, -a.cv)
	}
	return f.mk("bvneg", a.sort, 0, 0, a)
}

func (f *Factory) cmp(op string, a, b *Term) *Term {
	if a.sort != b.sort {
		panic(fmt.Sprintf("%s sort mismatch %v %v", op, a.sort, b.sort))
	}
	w := a.sort.W
	if a.konst && b.konst {
		var r bool
		switch op {
		case "bvult":
			r = a.cv < b.cv
		case "bvule":
			r = a.cv <= b.cv
		case "bvslt":
			r = sext(a.cv, w) < sext(b.cv, w)
		case "bvsle":
			r = sext(a.cv, w) <= sext(b.cv, w)
		}
		return f.Bool(r)
	}
	if a == b {
		return f.Bool(op == "bvule" || op == "bvsle")
	}
	// trivial unsigned bounds
	if op == "bvult" && b.konst && b.cv == 0 {
		return f.Bool(false)
	}
	if op == "bvule" && a.konst && a.cv == 0 {
		return f.Bool(true)
	}
	// interval-based folding against constants (upper bounds asserted on this path)
	if (op == "bvult" || op == "bvule") && b.konst && f.ub != nil {
		if lo, hi, ok := f.urange(a); ok {
			if op == "bvult" {
				if hi < b.cv {
					return f.Bool(true)
				}
				if lo >= b.cv {
					return f.Bool(false)
				}
			} else {
				if hi <= b.cv {
					return f.Bool(true)
				}
				if lo > b.cv {
					return f.Bool(false)
				}
			}
		}
	}
	// zero-extended operands against constants
	if op == "bvult" || op == "bvule" {
		if a.op == "zext" && b.konst {
			iw := a.args[0].sort.W
			if b.cv > mask(iw) {
				return f.Bool(true)
			}
			return f.cmp(op, a.args[0], f.Const(iw, b.cv))
		}
	}
	return f.mk(op, BoolSort, 0, 0, a, b)
}

func (f *Factory) ULt(a, b *Term) *Term { return f.cmp("bvult", a, b) }
func (f *Factory) ULe(a, b *Term) *Term { return f.cmp("bvule", a, b) }
func (f *Factory) SLt(a, b *Term) *Term { return f.cmp("bvslt", a, b) }
func (f *Factory) SLe(a, b *Term) *Term { return f.cmp("bvsle", a, b) }

func (f *Factory) Extract(hi, lo int, a *Term) *Term {
	if lo == 0 && hi == a.sort.W-1 {
		return a
	}
	w := hi - lo + 1
	if a.konst {
		return f.Const(w, a.cv>>uint(lo))
	}
	if (a.op == "zext" || a.op == "sext") && lo == 0 {
		iw := a.args[0].sort.W
		if w == iw {
			return a.args[0]
		}
		if w < iw {
			return f.Extract(hi, 0, a.args[0])
		}
		if a.op == "zext" {
			return f.ZExt(a.args[0], w)
		}
		return f.SExt(a.args[0], w)
	}
	if a.op == "extract" {
		return f.Extract(hi+a.p2, lo+a.p2, a.args[0])
	}
	if a.op == "concat" {
		lw := a.args[1].sort.W
		if hi < lw {
			return f.Extract(hi, lo, a.args[1])
		}
		if lo >= lw {
			return f.Extract(hi-lw, lo-lw, a.args[0])
		}
	}
	return f.mk("extract", BV(w), hi, lo, a)
}

func (f *Factory) ZExt(a *Term, w int) *Term {
	if w == a.sort.W {
		return a
	}
	if w < a.sort.W {
		return f.Extract(w-1, 0, a)
	}
	if a.konst {
		return f.Const(w, a.cv)
	}
	if a.op == "zext" {
		return f.ZExt(a.args[0], w)
	}
	// zext(extract[k:0](X)) == X when X provably fits in k+1 bits
	if a.op == "extract" && a.p2 == 0 && a.args[0].sort.W == w {
		if _, h, ok := f.urange(a.args[0]); ok && h <= mask(a.sort.W) {
			return a.args[0]
		}
	}
	return f.mk("zext", BV(w), w-a.sort.W, 0, a)
}

func (f *Factory) SExt(a *Term, w int) *Term {
	if w == a.sort.W {
		return a
	}
	if w < a.sort.W {
		return f.Extract(w-1, 0, a)
	}
	if a.konst {
		return f.Const(w, uint64(sext(a.cv, a.sort.W)))
	}
	if a.op == "zext" {
		return f.ZExt(a.args[0], w)
	}
	if a.op == "extract" && a.p2 == 0 && a.args[0].sort.W == w {
		if _, h, ok := f.urange(a.args[0]); ok && h < uint64(1)<<uint(a.sort.W-1) {
			return a.args[0]
		}
	}
	if _, h, ok := f.urange(a); ok && h < uint64(1)<<uint(a.sort.W-1) {
		return f.ZExt(a, w)
	}
	return f.mk("sext", BV(w), w-a.sort.W, 0, a)
}

func (f *Factory) Concat(hi, lo *Term) *Term {
	w := hi.sort.W + lo.sort.W
	if hi.konst && lo.konst && w <= 64 {
		return f.Const(w, hi.cv<<uint(lo.sort.W)|lo.cv)
	}
	// adjacent extracts of the same term fuse: x[h1:l1] ++ x[h2:l2] with l1 == h2+1
	if hi.op == "extract" && lo.op == "extract" && hi.args[0] == lo.args[0] && hi.p2 == lo.p1+1 {
		return f.Extract(hi.p1, lo.p2, hi.args[0])
	}
	// hi ++ (mid ++ lo') where hi and mid fuse
	if hi.op == "extract" && lo.op == "concat" && lo.args[0].op == "extract" &&
		hi.args[0] == lo.args[0].args[0] && hi.p2 == lo.args[0].p1+1 {
		return f.Concat(f.Extract(hi.p1, lo.args[0].p2, hi.args[0]), lo.args[1])
	}
	// zero high part is a zero extension
	if hi.konst && hi.cv == 0 && w <= 64 {
		return f.ZExt(lo, w)
	}
	return f.mk("concat", BV(w), 0, 0, hi, lo)
}

// Bool <-> BV1 helpers
func (f *Factory) BoolToBV(b *Term, w int) *Term {
	return f.Ite(b, f.Const(w, 1), f.Const(w, 0))
}

// ---- arrays (used for constant tables indexed by symbolic values)

func (f *Factory) ConstArray(iw, vw int, vals []uint64) *Term {
	// built as a chain of stores over a fresh-named base; base values irrelevant when
	// every index is stored. We use (as const) for the base.
	base := f.mk("constarr", Sort{K: SArr, W: vw, IW: iw}, 0, 0)
	t := base
	for i, v := range vals {
		t = f.mk("store", base.sort, 0, 0, t, f.Const(iw, uint64(i)), f.Const(vw, v))
	}
	return t
}

func (f *Factory) Select(arr, idx *Term) *Term {
	// select over a store chain with constant indices resolves syntactically
	for a := arr; a.op == "store"; a = a.args[0] {
		if a.args[1] == idx {
			return a.args[2]
		}
		if !(a.args[1].konst && idx.konst) {
			break
		}
	}
	return f.mk("select", BV(arr.sort.W), 0, 0, arr, idx)
}

// ArrayVar is an unconstrained array variable (BV iw -> BV vw).
func (f *Factory) ArrayVar(name string, iw, vw int) *Term {
	return f.Var(name, Sort{K: SArr, W: vw, IW: iw})
}

func (f *Factory) Store(arr, idx, val *Term) *Term {
	return f.mk("store", arr.sort, arr.sort.IW, 0, arr, idx, val)
}

// ---- floating point (float64 only)

func (f *Factory) fpbin(op string, a, b *Term) *Term {
	if a.konst && b.konst {
		switch op {
		case "fp.add":
			return f.Float(a.fv + b.fv)
		case "fp.sub":
			return f.Float(a.fv - b.fv)
		case "fp.mul":
			return f.Float(a.fv * b.fv)
		case "fp.div":
			return f.Float(a.fv / b.fv)
		}
	}
	return f.mk(op, Sort{K: SFP64}, 0, 0, a, b)
}

func (f *Factory) fpcmp(op string, a, b *Term) *Term {
	if a.konst && b.konst {
		switch op {
		case "fp.lt":
			return f.Bool(a.fv < b.fv)
		case "fp.leq":
			return f.Bool(a.fv <= b.fv)
		case "fp.gt":
			return f.Bool(a.fv > b.fv)
		case "fp.geq":
			return f.Bool(a.fv >= b.fv)
		}
	}
	return f.mk(op, BoolSort, 0, 0, a, b)
}

func (f *Factory) FPNeg(a *Term) *Term {
	if a.konst {
		return f.Float(-a.fv)
	}
	return f.mk("fp.neg", a.sort, 0, 0, a)
}

// FPFromInt converts a bit-vector (signed or unsigned) to float64, RNE.
func (f *Factory) FPFromInt(a *Term, signed bool) *Term {
	if a.konst {
		if signed {
			return f.Float(float64(sext(a.cv, a.sort.W)))
		}
		return f.Float(float64(a.cv))
	}
	if signed {
		return f.mk("to_fp_s", Sort{K: SFP64}, 0, 0, a)
	}
	return f.mk("to_fp_u", Sort{K: SFP64}, 0, 0, a)
}

// FPToInt converts float64 to a bit-vector of width w with truncation (RTZ).
// Out-of-range results are unspecified in SMT-LIB, like in Go.
func (f *Factory) FPToInt(a *Term, w int, signed bool) *Term {
	if a.konst {
		if signed {
			return f.Const(w, uint64(int64(a.fv)))
		}
		if a.fv >= 0 && a.fv < 18446744073709551616.0 {
			return f.Const(w, uint64(a.fv))
		}
	}
	if signed {
		return f.mk("fp.to_sbv", BV(w), w, 0, a)
	}
	return f.mk("fp.to_ubv", BV(w), w, 0, a)
}

// ---- printing

func bvLit(w int, v uint64) string {
	if w%4 == 0 {
		return fmt.Sprintf("#x%0*x", w/4, v&mask(w))
	}
	return fmt.Sprintf("#b%0*b", w, v&mask(w))
}

func (t *Term) ref() string {
	if t.konst {
		switch t.sort.K {
		case SBool:
			if t.cv == 1 {
				return "true"
			}
			return "false"
		case SBV:
			return bvLit(t.sort.W, t.cv)
		case SFP64:
			b := math.Float64bits(t.fv)
			return fmt.Sprintf("(fp #b%b #b%011b #b%052b)", b>>63, (b>>52)&0x7ff, b&((1<<52)-1))
		}
	}
	if t.op == "var" {
		return "v_" + t.name
	}
	return "n" + strconv.Itoa(t.id)
}

// body renders the term's own definition with children by reference.
func (t *Term) body() string {
	a := make([]string, len(t.args))
	for i, x := range t.args {
		a[i] = x.ref()
	}
	switch t.op {
	case "extract":
		return fmt.Sprintf("((_ extract %d %d) %s)", t.p1, t.p2, a[0])
	case "zext":
		return fmt.Sprintf("((_ zero_extend %d) %s)", t.p1, a[0])
	case "sext":
		return fmt.Sprintf("((_ sign_extend %d) %s)", t.p1, a[0])
	case "constarr":
		return fmt.Sprintf("((as const %s) %s)", t.sort.String(), bvLit(t.sort.W, 0))
	case "fp.add", "fp.sub", "fp.mul", "fp.div":
		return fmt.Sprintf("(%s RNE %s %s)", t.op, a[0], a[1])
	case "to_fp_s":
		return fmt.Sprintf("((_ to_fp 11 53) RNE %s)", a[0])
	case "to_fp_u":
		return fmt.Sprintf("((_ to_fp_unsigned 11 53) RNE %s)", a[0])
	case "fp.to_sbv":
		return fmt.Sprintf("((_ fp.to_sbv %d) RTZ %s)", t.p1, a[0])
	case "fp.to_ubv":
		return fmt.Sprintf("((_ fp.to_ubv %d) RTZ %s)", t.p1, a[0])
	}
	return "(" + t.op + " " + strings.Join(a, " ") + ")"
}

// Eval evaluates a term under an assignment of variables (used for
// model-based keys and for sanity checks). Unsupported ops panic.
func (t *Term) Eval(env map[string]uint64) uint64 {
	if t.konst {
		return t.cv
	}
	w := t.sort.W
	arg := func(i int) uint64 { return t.args[i].Eval(env) }
	b2u := func(b bool) uint64 {
		if b {
			return 1
		}
		return 0
	}
	switch t.op {
	case "var":
		return env[t.name] & mask(maxInt(w, 1))
	case "not":
		return 1 - arg(0)
	case "and":
		return arg(0) & arg(1)
	case "or":
		return arg(0) | arg(1)
	case "ite":
		if arg(0) == 1 {
			return arg(1)
		}
		return arg(2)
	case "=":
		return b2u(arg(0) == arg(1))
	case "bvult":
		return b2u(arg(0) < arg(1))
	case "bvule":
		return b2u(arg(0) <= arg(1))
	case "bvslt":
		return b2u(sext(arg(0), t.args[0].sort.W) < sext(arg(1), t.args[0].sort.W))
	case "bvsle":
		return b2u(sext(arg(0), t.args[0].sort.W) <= sext(arg(1), t.args[0].sort.W))
	case "extract":
		return (arg(0) >> uint(t.p2)) & mask(w)
	case "zext":
		return arg(0)
	case "sext":
		return uint64(sext(arg(0), t.args[0].sort.W)) & mask(w)
	case "concat":
		return (arg(0)<<uint(t.args[1].sort.W) | arg(1)) & mask(w)
	case "bvnot":
		return ^arg(0) & mask(w)
	case "bvneg":
		return -arg(0) & mask(w)
	case "bvadd", "bvsub", "bvmul", "bvand", "bvor", "bvxor", "bvshl", "bvlshr", "bvashr", "bvudiv", "bvurem", "bvsdiv", "bvsrem":
		f := t.f
		r := f.bin(t.op, f.Const(w, arg(0)), f.Const(w, arg(1)))
		if r.konst {
			return r.cv
		}
	}
	panic("Eval: unsupported op " + t.op)
}

func maxInt(a, b int) int {
	if a > b {
		return a
	}
	return b
}

var _ = bits.Len

// ---- interval-assisted rewriting
//
// urange computes an unsigned interval for t that is valid on the current path:
// it uses only the syntactic shape of t and upper bounds recorded from
// constraints already asserted on this path (NoteAsserted). All arithmetic is
// checked for wrap-around; ok=false means "no information".

func (f *Factory) NoteAsserted(c *Term) {
	if f.ub == nil {
		f.ub = map[*Term]uint64{}
	}
	switch c.op {
	case "and":
		f.NoteAsserted(c.args[0])
		f.NoteAsserted(c.args[1])
		f.NoteAsserted(c.args[0]) // lower bounds may be recorded by the second conjunct
	case "bvsle", "bvslt":
		// signed facts: k <= t with k >= 0 makes t non-negative; then t <= k2 is an unsigned bound
		if f.nonneg == nil {
			f.nonneg = map[*Term]bool{}
		}
		a, b := c.args[0], c.args[1]
		w := a.sort.W
		if a.konst && !b.konst && sext(a.cv, w) >= 0 {
			f.nonneg[b] = true
			if hi, ok := f.pendUB[b]; ok {
				f.noteUB(b, hi)
			}
		}
		if b.konst && !a.konst && sext(b.cv, w) >= 0 {
			hi := b.cv
			if c.op == "bvslt" {
				if hi == 0 {
					return
				}
				hi--
			}
			if f.nonneg[a] {
				f.noteUB(a, hi)
			} else {
				if f.pendUB == nil {
					f.pendUB = map[*Term]uint64{}
				}
				f.pendUB[a] = hi
			}
		}
	case "bvult":
		if c.args[1].konst && !c.args[0].konst && c.args[1].cv > 0 {
			f.noteUB(c.args[0], c.args[1].cv-1)
		}
	case "bvule":
		if c.args[1].konst && !c.args[0].konst {
			f.noteUB(c.args[0], c.args[1].cv)
		}
	case "not":
		in := c.args[0]
		// not(k < x)  ==  x <= k ; not(k <= x) == x < k
		if in.op == "bvult" && in.args[0].konst && !in.args[1].konst {
			f.noteUB(in.args[1], in.args[0].cv)
		}
		if in.op == "bvule" && in.args[0].konst && !in.args[1].konst && in.args[0].cv > 0 {
			f.noteUB(in.args[1], in.args[0].cv-1)
		}
	case "=":
		if c.args[1].konst && c.args[1].sort.K == SBV {
			f.noteUB(c.args[0], c.args[1].cv)
		} else if c.args[0].konst && c.args[0].sort.K == SBV {
			f.noteUB(c.args[1], c.args[0].cv)
		}
	}
}

func (f *Factory) noteUB(t *Term, hi uint64) {
	if old, ok := f.ub[t]; !ok || hi < old {
		f.ub[t] = hi
	}
}

func (f *Factory) urange(t *Term) (lo, hi uint64, ok bool) {
	if t.sort.K != SBV {
		return 0, 0, false
	}
	w := t.sort.W
	if t.konst {
		return t.cv, t.cv, true
	}
	lo, hi, ok = f.urange0(t)
	if !ok {
		lo, hi, ok = 0, mask(w), true
	}
	if b, has := f.ub[t]; has && b < hi {
		hi = b
		if lo > hi {
			lo = hi
		}
	}
	return
}

func (f *Factory) urange0(t *Term) (lo, hi uint64, ok bool) {
	w := t.sort.W
	switch t.op {
	case "zext":
		return f.urange(t.args[0])
	case "sext":
		l, h, k := f.urange(t.args[0])
		iw := t.args[0].sort.W
		if k && h < uint64(1)<<uint(iw-1) {
			return l, h, true
		}
	case "extract":
		if t.p2 == 0 {
			l, h, k := f.urange(t.args[0])
			if k && h <= mask(w) {
				return l, h, true
			}
		}
	case "bvadd":
		l1, h1, k1 := f.urange(t.args[0])
		l2, h2, k2 := f.urange(t.args[1])
		if k1 && k2 {
			s, c := bits.Add64(h1, h2, 0)
			if c == 0 && s <= mask(w) {
				return l1 + l2, s, true
			}
		}
	case "bvmul":
		l1, h1, k1 := f.urange(t.args[0])
		l2, h2, k2 := f.urange(t.args[1])
		if k1 && k2 {
			hh, ll := bits.Mul64(h1, h2)
			if hh == 0 && ll <= mask(w) {
				return l1 * l2, ll, true
			}
		}
	case "bvand":
		_, h1, k1 := f.urange(t.args[0])
		_, h2, k2 := f.urange(t.args[1])
		if k1 && k2 {
			if h2 < h1 {
				h1 = h2
			}
			return 0, h1, true
		}
	case "bvudiv":
		l1, h1, k1 := f.urange(t.args[0])
		if k1 && t.args[1].konst && t.args[1].cv != 0 {
			return l1 / t.args[1].cv, h1 / t.args[1].cv, true
		}
	case "bvurem":
		if t.args[1].konst && t.args[1].cv != 0 {
			return 0, t.args[1].cv - 1, true
		}
	case "bvlshr":
		l1, h1, k1 := f.urange(t.args[0])
		if k1 && t.args[1].konst && t.args[1].cv < 64 {
			return l1 >> t.args[1].cv, h1 >> t.args[1].cv, true
		}
	case "ite":
		l1, h1, k1 := f.urange(t.args[1])
		l2, h2, k2 := f.urange(t.args[2])
		if k1 && k2 {
			if l2 < l1 {
				l1 = l2
			}
			if h2 > h1 {
				h1 = h2
			}
			return l1, h1, true
		}
	}
	return 0, 0, false
}

// divRewrite simplifies a div/rem by a positive constant using intervals.
// It returns nil when no rule applies.
func (f *Factory) divRewrite(op string, a, b *Term) *Term {
	if !b.konst || b.cv == 0 {
		return nil
	}
	w := a.sort.W
	c := b.cv
	signed := op == "bvsdiv" || op == "bvsrem"
	if signed && c >= uint64(1)<<uint(w-1) {
		return nil // negative divisor
	}
	lo, hi, ok := f.urange(a)
	_ = lo
	if !ok {
		return nil
	}
	if signed && hi >= uint64(1)<<uint(w-1) {
		return nil // may be negative
	}
	isDiv := op == "bvsdiv" || op == "bvudiv"
	if hi < c {
		if isDiv {
			return f.Const(w, 0)
		}
		return a
	}
	// a = x*c  (no wrap, established by urange succeeding on a through bvmul)
	mulOf := func(t *Term) *Term {
		if t.op != "bvmul" {
			return nil
		}
		if _, _, k := f.urange0(t); !k {
			return nil
		}
		if t.args[0].konst && t.args[0].cv == c {
			return t.args[1]
		}
		if t.args[1].konst && t.args[1].cv == c {
			return t.args[0]
		}
		return nil
	}
	if x := mulOf(a); x != nil {
		if isDiv {
			return x
		}
		return f.Const(w, 0)
	}
	if a.op == "bvadd" {
		if _, _, k := f.urange0(a); k {
			for i := 0; i < 2; i++ {
				if x := mulOf(a.args[i]); x != nil {
					r := a.args[1-i]
					if _, rh, rk := f.urange(r); rk && rh < c {
						if isDiv {
							return x
						}
						return r
					}
				}
			}
		}
	}
	return nil
}
