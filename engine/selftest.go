package main

// Translator validation: the same harness functions are run natively (go test
// -overlay against the real build) and through the executor on concrete inputs
// taken from the repository's own tests; the observation logs must be identical.

import (
	"encoding/json"
	"fmt"
	"os"
	"os/exec"
	"path/filepath"
	"strings"
	"time"

	"golang.org/x/tools/go/ssa"
)

func cmdSelftest(args []string) int {
	start := time.Now()
	// solver sanity
	s, err := NewSolver(Z3, 10000)
	if err != nil {
		fmt.Println("selftest: cannot start z3:", err)
		return 3
	}
	f := NewFactory()
	x := f.Var("x", BV(8))
	s.Assert(f.Eq(f.Add(x, f.Const(8, 1)), f.Const(8, 0)))
	if s.Check() != Sat || s.Values([]*Term{x})[x] != 255 {
		fmt.Println("selftest: solver sanity check failed")
		return 3
	}
	s.Close()
	dirs, _ := filepath.Glob(filepath.Join(verifDir, "harness", "selftest*"))
	total, bad := 0, 0
	for _, d := range dirs {
		prop := filepath.Base(d)
		spec, hdir, err := loadSpec(prop)
		if err != nil {
			fmt.Println("selftest:", err)
			return 3
		}
		ov, err := overlayFor(spec, hdir)
		if err != nil {
			fmt.Println("selftest:", err)
			return 3
		}
		prog, pkg, err := loadProgram(spec, ov)
		if err != nil {
			fmt.Println("selftest: load:", err)
			return 3
		}
		eng := &Engine{prog: prog, harnessPkg: pkg, replace: map[string]*ssa.Function{}, maxSteps: 20000000, unwind: 100000,
			timeoutMs: 20000, params: map[string]int64{}, allowInit: map[string]bool{}, denyPkgs: map[string]bool{}}
		for _, p := range defaultAllowInit {
			eng.allowInit[p] = true
		}
		for _, p := range spec.AllowInit {
			eng.allowInit[p] = true
		}
		for _, p := range defaultDeny {
			eng.denyPkgs[p] = true
		}
		for _, p := range spec.AllowPkgs {
			delete(eng.denyPkgs, p)
		}
		if rp := prog.ImportedPackage("runtime"); rp != nil {
			if t := rp.Type("errorString"); t != nil {
				eng.runtimeErrType = t.Type()
			}
		}
		native, nerr := nativeObserve(spec, hdir, spec.Entries)
		if nerr != nil {
			fmt.Println("selftest: native run failed:", nerr)
			return 3
		}
		for _, en := range spec.Entries {
			fn := pkg.Func(en)
			if fn == nil {
				fmt.Println("selftest: entry not found", en)
				return 3
			}
			xp := eng.Explore(fn, 1, time.Time{})
			total++
			if len(xp.results) != 1 || xp.results[0].Status != "ok" {
				bad++
				msg := ""
				if len(xp.results) > 0 {
					msg = xp.results[0].Status + ": " + firstLine(xp.results[0].Msg)
					if os.Getenv("GOSMT_DEBUG") != "" {
						msg = xp.results[0].Msg
					}
				}
				fmt.Printf("selftest %s/%s: executor did not complete a single concrete path (%d paths) %s\n", prop, en, len(xp.results), msg)
				continue
			}
			got := xp.results[0].Observed
			want := native[en]
			if strings.Join(got, "\n") != strings.Join(want, "\n") {
				bad++
				fmt.Printf("selftest %s/%s: MISMATCH executor vs native (%d vs %d observations)\n", prop, en, len(got), len(want))
				shown := 0
				for i := 0; i < len(got) || i < len(want); i++ {
					var g, w string
					if i < len(got) {
						g = got[i]
					}
					if i < len(want) {
						w = want[i]
					}
					if g != w {
						fmt.Printf("   #%d executor=%q native=%q\n", i, g, w)
						shown++
						if shown >= 4 {
							break
						}
					}
				}
				continue
			}
			fmt.Printf("selftest %s/%s: ok (%d observations identical)\n", prop, en, len(got))
		}
	}
	fmt.Printf("selftest: %d functions, %d mismatches, %.1fs\n", total, bad, time.Since(start).Seconds())
	if bad > 0 {
		return 3
	}
	return 0
}

// nativeObserve runs each entry natively and collects its VERIF-OBSERVE lines.
func nativeObserve(spec *Spec, hdir string, entries []string) (map[string][]string, error) {
	tmp, err := os.MkdirTemp("", "gosmt-selftest-")
	if err != nil {
		return nil, err
	}
	defer os.RemoveAll(tmp)
	ov, err := overlayFor(spec, hdir)
	if err != nil {
		return nil, err
	}
	pkgName := packageNameOf(filepath.Join(repoDir, spec.Package))
	var sb strings.Builder
	fmt.Fprintf(&sb, "//go:build verif\n\npackage %s\n\nimport (\n\t\"fmt\"\n\t\"testing\"\n)\n\nfunc TestVerifSelftest(t *testing.T) {\n", pkgName)
	for _, en := range entries {
		fmt.Fprintf(&sb, "\tfmt.Println(\"VERIF-ENTRY %s\")\n\t%s()\n", en, en)
	}
	sb.WriteString("}\n")
	ov[filepath.Join(repoDir, spec.Package, "zz_verif_selftest_test.go")] = []byte(sb.String())
	repl := map[string]string{}
	i := 0
	for virt, content := range ov {
		real := filepath.Join(tmp, fmt.Sprintf("f%d.go", i))
		i++
		os.WriteFile(real, content, 0o644)
		repl[virt] = real
	}
	ovb, _ := json.Marshal(map[string]interface{}{"Replace": repl})
	ovPath := filepath.Join(tmp, "overlay.json")
	os.WriteFile(ovPath, ovb, 0o644)
	cmd := exec.Command("go", "test", "-v", "-tags", "verif", "-vet=off", "-count=1", "-overlay", ovPath, "-run", "^TestVerifSelftest$", "-timeout", "300s", "./"+spec.Package)
	cmd.Dir = repoDir
	cmd.Env = append(os.Environ(), "GOFLAGS=-mod=mod", "GOPROXY=off")
	out, err := cmd.CombinedOutput()
	if err != nil {
		return nil, fmt.Errorf("%v: %s", err, string(out))
	}
	res := map[string][]string{}
	cur := ""
	for _, line := range strings.Split(string(out), "\n") {
		if strings.HasPrefix(line, "VERIF-ENTRY ") {
			cur = strings.TrimPrefix(line, "VERIF-ENTRY ")
			continue
		}
		if strings.HasPrefix(line, "VERIF-OBSERVE ") {
			res[cur] = append(res[cur], strings.TrimPrefix(line, "VERIF-OBSERVE "))
		}
	}
	return res, nil
}
