package main

// Engine-side models of leaf primitives: the harness API (zzverif), sync,
// sync/atomic, errors, fmt, and native call-outs for pure functions on
// concrete arguments.

import (
	"fmt"
	"go/types"
	"math"
	"strings"

	"golang.org/x/tools/go/ssa"
)

type intrinsic func(in *Interp, caller *Frame, fn *ssa.Function, args []Value) (Value, bool)

var intrinsics = map[string]intrinsic{}

const verifPkg = "github.com/pion/webrtc/v4/internal/zzverif."

// FakeObj is an engine-implemented object usable behind an interface.
type FakeObj struct {
	name    string
	methods map[string]func(in *Interp, args []Value) Value
}

func (f *FakeObj) method(in *Interp, m *types.Func) Value {
	if fn, ok := f.methods[m.Name()]; ok {
		return &NativeFn{name: f.name + "." + m.Name(), fn: fn}
	}
	panic(&pathEnd{kind: "unsupported", msg: "fake object " + f.name + " has no method " + m.Name()})
}

func sanitize(s string) string {
	var sb strings.Builder
	for _, c := range s {
		if c >= 'a' && c <= 'z' || c >= 'A' && c <= 'Z' || c >= '0' && c <= '9' || c == '_' {
			sb.WriteRune(c)
		} else {
			sb.WriteByte('_')
		}
	}
	return sb.String()
}

func (in *Interp) conStr(v Value, what string) string {
	s, ok := v.(Str).Concrete()
	if !ok {
		panic(engineErr(what + ": symbolic string where a literal is required"))
	}
	return s
}

// nondet creates (or returns) the named input variable.
func (in *Interp) nondet(name string, s Sort) *Term {
	n := in.inputSeen[name]
	in.inputSeen[name] = n + 1
	full := name
	if n > 0 {
		full = fmt.Sprintf("%s#%d", name, n)
	}
	if in.fixed != nil {
		// concrete re-execution of a counterexample: inputs take the model's values
		v := in.fixed[sanitizeKeep(full)]
		switch s.K {
		case SBool:
			return in.F.Bool(v != 0)
		case SFP64:
			return in.F.Float(math.Float64frombits(v))
		default:
			return in.F.Const(s.W, v)
		}
	}
	t := in.F.Var(sanitizeKeep(full), s)
	in.inputs = append(in.inputs, t)
	return t
}

// sanitizeKeep makes a name solver-safe but keeps '#' as "__" so names map back.
func sanitizeKeep(s string) string {
	return strings.ReplaceAll(sanitize(strings.ReplaceAll(s, "#", "__")), " ", "_")
}

func init() {
	reg := func(name string, f intrinsic) { intrinsics[name] = f }
	v := func(name string, f func(in *Interp, args []Value) Value) {
		reg(verifPkg+name, func(in *Interp, _ *Frame, _ *ssa.Function, args []Value) (Value, bool) {
			return f(in, args), true
		})
	}
	v("U8", func(in *Interp, a []Value) Value { return in.nondet(in.conStr(a[0], "U8"), BV(8)) })
	v("U16", func(in *Interp, a []Value) Value { return in.nondet(in.conStr(a[0], "U16"), BV(16)) })
	v("U32", func(in *Interp, a []Value) Value { return in.nondet(in.conStr(a[0], "U32"), BV(32)) })
	v("U64", func(in *Interp, a []Value) Value { return in.nondet(in.conStr(a[0], "U64"), BV(64)) })
	v("I64", func(in *Interp, a []Value) Value { return in.nondet(in.conStr(a[0], "I64"), BV(64)) })
	v("Int", func(in *Interp, a []Value) Value { return in.nondet(in.conStr(a[0], "Int"), BV(64)) })
	v("Bool", func(in *Interp, a []Value) Value { return in.nondet(in.conStr(a[0], "Bool"), BoolSort) })
	v("F64", func(in *Interp, a []Value) Value { return in.nondet(in.conStr(a[0], "F64"), Sort{K: SFP64}) })
	v("IntRange", func(in *Interp, a []Value) Value {
		t := in.nondet(in.conStr(a[0], "IntRange"), BV(64))
		lo, hi := a[1].(*Term), a[2].(*Term)
		if lo.konst && hi.konst && sext(lo.cv, 64) <= sext(hi.cv, 64) {
			in.assertPC(in.F.And(in.F.SLe(lo, t), in.F.SLe(t, hi)))
		} else {
			in.assume(in.F.And(in.F.SLe(lo, t), in.F.SLe(t, hi)), "IntRange")
		}
		return t
	})
	// Choice returns a concrete value in [0,n): symbolic variable concretised by fork.
	v("Choice", func(in *Interp, a []Value) Value {
		t := in.nondet(in.conStr(a[0], "Choice"), BV(64))
		n := a[1].(*Term)
		if n.konst && n.cv > 0 {
			// a bound on a fresh variable is always satisfiable: no feasibility query
			in.assertPC(in.F.ULt(t, n))
		} else {
			in.assume(in.F.ULt(t, n), "Choice")
		}
		return in.F.Const(64, in.concretize(t, "Choice"))
	})
	v("Bytes", func(in *Interp, a []Value) Value {
		name := in.conStr(a[0], "Bytes")
		n := int(in.concreteInt(a[1].(*Term), "Bytes len"))
		sl := in.makeSlice(types.Typ[types.Uint8], n, n)
		arr := sl.obj.val.(*ArrayV)
		for i := 0; i < n; i++ {
			arr.e[i] = in.nondet(fmt.Sprintf("%s_%d", name, i), BV(8))
		}
		return sl
	})
	// SymLenBytes: a zero-filled byte slice whose length is a solver variable in [0,max].
	v("SymLenBytes", func(in *Interp, a []Value) Value {
		name := in.conStr(a[0], "SymLenBytes")
		max := int(in.concreteInt(a[1].(*Term), "SymLenBytes max"))
		n := in.nondet(name, BV(64))
		in.assume(in.F.ULe(n, in.F.Const(64, uint64(max))), "SymLenBytes bound")
		sl := in.makeSlice(types.Typ[types.Uint8], max, max)
		sl.slen = n
		return sl
	})
	// SymSet16: an arbitrary set of uint16 (map[uint16]struct{}); membership of the
	// values below n is reported in counterexamples as name_<i>.
	v("SymSet16", func(in *Interp, a []Value) Value {
		name := in.conStr(a[0], "SymSet16")
		n := int(in.concreteInt(a[1].(*Term), "SymSet16 domain"))
		if in.fixed != nil {
			in.nextObj++
			m := &MapV{id: in.nextObj, idx: map[string]int{}}
			for i := 0; i < n; i++ {
				if in.fixed[fmt.Sprintf("%s_%d", sanitizeKeep(name), i)] != 0 {
					in.mapSet(m, in.F.Const(16, uint64(i)), &StructV{})
				}
			}
			return m
		}
		arr := in.F.ArrayVar(sanitizeKeep(name), 16, 1)
		for i := 0; i < n; i++ {
			in.probes = append(in.probes, probe{name: fmt.Sprintf("%s_%d", sanitizeKeep(name), i), t: in.F.Select(arr, in.F.Const(16, uint64(i)))})
		}
		in.nextObj++
		return &MapV{id: in.nextObj, idx: map[string]int{}, arr: arr, kw: 16}
	})
	// SetSnapshot16: an independent copy of a set.
	v("SetSnapshot16", func(in *Interp, a []Value) Value {
		m := a[0].(*MapV)
		in.nextObj++
		if m == nil {
			return &MapV{id: in.nextObj, idx: map[string]int{}}
		}
		cp := &MapV{id: in.nextObj, idx: map[string]int{}, arr: m.arr, kw: m.kw, symKeys: m.symKeys}
		for _, e := range m.entries {
			if e != nil {
				ks, conc := in.keyString(e.k)
				if conc {
					cp.idx[ks] = len(cp.entries)
				}
				cp.entries = append(cp.entries, &MapEntry{k: e.k, v: e.v})
			}
		}
		return cp
	})
	v("String", func(in *Interp, a []Value) Value {
		name := in.conStr(a[0], "String")
		n := int(in.concreteInt(a[1].(*Term), "String len"))
		bs := make([]*Term, n)
		for i := 0; i < n; i++ {
			bs[i] = in.nondet(fmt.Sprintf("%s_%d", name, i), BV(8))
		}
		return in.strFromBytes(bs)
	})
	v("Concrete", func(in *Interp, a []Value) Value {
		t := a[0].(*Term)
		return in.F.Const(t.sort.W, in.concretize(t, "Concrete"))
	})
	v("Assume", func(in *Interp, a []Value) Value {
		in.assume(a[0].(*Term), "harness Assume")
		return nil
	})
	v("Assert", func(in *Interp, a []Value) Value {
		label := in.conStr(a[1], "Assert label")
		kt, kn := in.takeKeys(label)
		in.assertObl(a[0].(*Term), label, kt, kn)
		return nil
	})
	v("Key", func(in *Interp, a []Value) Value {
		label := in.conStr(a[0], "Key label")
		name := in.conStr(a[1], "Key name")
		in.pendKeys = append(in.pendKeys, pendKey{label, name, a[2].(*Term)})
		return nil
	})
	v("KeyBool", func(in *Interp, a []Value) Value {
		label := in.conStr(a[0], "Key label")
		name := in.conStr(a[1], "Key name")
		in.pendKeys = append(in.pendKeys, pendKey{label, name, a[2].(*Term)})
		return nil
	})
	v("Reach", func(in *Interp, a []Value) Value {
		in.res.Reached[in.conStr(a[0], "Reach")] = true
		return nil
	})
	v("Param", func(in *Interp, a []Value) Value {
		name := in.conStr(a[0], "Param")
		if pv, ok := in.params[name]; ok {
			return in.F.Const(64, uint64(pv))
		}
		return a[1]
	})
	v("Symbolic", func(in *Interp, a []Value) Value { return in.F.Bool(true) })
	v("Note", func(in *Interp, a []Value) Value {
		note := in.conStr(a[0], "Note")
		found := false
		for _, x := range in.res.Assumes {
			if x == note {
				found = true
			}
		}
		if !found {
			in.res.Assumes = append(in.res.Assumes, note)
		}
		return nil
	})
	v("Observe", func(in *Interp, a []Value) Value {
		t := a[1].(*Term)
		val := "<sym>"
		if t.konst {
			val = fmt.Sprint(t.cv)
		}
		in.observed = append(in.observed, in.conStr(a[0], "Observe")+" "+val)
		return nil
	})
	v("ObserveStr", func(in *Interp, a []Value) Value {
		val := "<sym>"
		if s, ok := a[1].(Str).Concrete(); ok {
			val = fmt.Sprintf("%q", s)
		}
		in.observed = append(in.observed, in.conStr(a[0], "ObserveStr")+" "+val)
		return nil
	})
	// SameF64: identity of float64 values (SMT-LIB "=": same bit pattern class, NaN = NaN)
	v("SameF64", func(in *Interp, a []Value) Value {
		x, y := a[0].(*Term), a[1].(*Term)
		if x == y {
			return in.F.Bool(true)
		}
		if x.konst && y.konst {
			return in.F.Bool(math.Float64bits(x.fv) == math.Float64bits(y.fv))
		}
		return in.F.mk("=", BoolSort, 0, 0, x, y)
	})
	v("Yield", func(in *Interp, a []Value) Value { in.sched.yield(); return nil })
	v("Preemptible", func(in *Interp, a []Value) Value {
		on, ok := a[0].(*Term)
		if !ok || !on.IsConst() {
			panic(&EngineError{msg: "Preemptible needs a constant argument"})
		}
		in.sched.noPreempt = on.IsFalse()
		return nil
	})
	v("Settle", func(in *Interp, a []Value) Value {
		s := in.sched
		me := in.cur
		s.block(func() bool {
			for _, t := range s.threads {
				if t != me && !t.done && (t.waitFn == nil || t.waitFn()) {
					return false
				}
			}
			return true
		}, "Settle")
		return nil
	})
	v("Ite8", func(in *Interp, a []Value) Value {
		return in.F.Ite(a[0].(*Term), a[1].(*Term), a[2].(*Term))
	})

	// ---- sync
	ptr0 := func(args []Value) *Ptr { p, _ := args[0].(*Ptr); return p }
	reg("(*sync.Mutex).Lock", func(in *Interp, _ *Frame, _ *ssa.Function, a []Value) (Value, bool) {
		in.mutexLock(ptr0(a))
		return nil, true
	})
	reg("(*sync.Mutex).Unlock", func(in *Interp, _ *Frame, _ *ssa.Function, a []Value) (Value, bool) {
		in.mutexUnlock(ptr0(a))
		return nil, true
	})
	reg("(*sync.Mutex).TryLock", func(in *Interp, _ *Frame, _ *ssa.Function, a []Value) (Value, bool) {
		return in.F.Bool(in.mutexTryLock(ptr0(a))), true
	})
	reg("(*sync.RWMutex).Lock", intrinsics["(*sync.Mutex).Lock"])
	reg("(*sync.RWMutex).Unlock", intrinsics["(*sync.Mutex).Unlock"])
	reg("(*sync.RWMutex).RLock", func(in *Interp, _ *Frame, _ *ssa.Function, a []Value) (Value, bool) {
		in.rwRLock(ptr0(a))
		return nil, true
	})
	reg("(*sync.RWMutex).RUnlock", func(in *Interp, _ *Frame, _ *ssa.Function, a []Value) (Value, bool) {
		in.rwRUnlock(ptr0(a))
		return nil, true
	})
	sideInt := func(in *Interp, p *Ptr, kind string) *int {
		k := fmt.Sprintf("%s/%d%v", kind, p.obj.id, p.path)
		if v, ok := in.sides[k]; ok {
			return v.(*int)
		}
		x := new(int)
		in.sides[k] = x
		return x
	}
	reg("(*sync.WaitGroup).Add", func(in *Interp, _ *Frame, _ *ssa.Function, a []Value) (Value, bool) {
		in.sched.yield()
		c := sideInt(in, ptr0(a), "wg")
		*c += int(in.concreteInt(a[1].(*Term), "wg.Add"))
		if *c < 0 {
			in.goPanicRuntime("sync: negative WaitGroup counter")
		}
		return nil, true
	})
	reg("(*sync.WaitGroup).Done", func(in *Interp, _ *Frame, _ *ssa.Function, a []Value) (Value, bool) {
		in.sched.yield()
		c := sideInt(in, ptr0(a), "wg")
		*c--
		if *c < 0 {
			in.goPanicRuntime("sync: negative WaitGroup counter")
		}
		return nil, true
	})
	reg("(*sync.WaitGroup).Wait", func(in *Interp, _ *Frame, _ *ssa.Function, a []Value) (Value, bool) {
		in.sched.yield()
		c := sideInt(in, ptr0(a), "wg")
		in.sched.block(func() bool { return *c == 0 }, "WaitGroup.Wait")
		return nil, true
	})
	reg("(*sync.Once).Do", func(in *Interp, caller *Frame, _ *ssa.Function, a []Value) (Value, bool) {
		in.sched.yield()
		st := sideInt(in, ptr0(a), "once") // 0 fresh, 1 running, 2 done
		if *st == 2 {
			return nil, true
		}
		if *st == 1 {
			in.sched.block(func() bool { return *st == 2 }, "Once.Do")
			return nil, true
		}
		*st = 1
		func() {
			defer func() { *st = 2 }()
			in.call(caller, a[1], nil, nil)
		}()
		return nil, true
	})
	reg("(*sync.Pool).Get", func(in *Interp, caller *Frame, _ *ssa.Function, a []Value) (Value, bool) {
		p := ptr0(a)
		k := fmt.Sprintf("pool/%d%v", p.obj.id, p.path)
		var items []Value
		if v, ok := in.sides[k]; ok {
			items = v.([]Value)
		}
		// nondeterministically reuse any pooled object or allocate a new one
		c := len(items) // default: reuse the most recently pooled object (what one P does)
		if in.params["pool_choice"] == 1 {
			// every possibility: a new object or any pooled one
			c = in.choose(len(items)+1, "pool.Get")
		}
		if c > 0 {
			it := items[c-1]
			items = append(append([]Value{}, items[:c-1]...), items[c:]...)
			in.sides[k] = items
			return it, true
		}
		st := in.load(p).(*StructV)
		newFn := st.f[len(st.f)-1]
		if cl, ok := newFn.(*Closure); ok && cl != nil {
			return in.call(caller, cl, nil, nil), true
		}
		return Iface{}, true
	})
	reg("(*sync.Pool).Put", func(in *Interp, _ *Frame, _ *ssa.Function, a []Value) (Value, bool) {
		p := ptr0(a)
		k := fmt.Sprintf("pool/%d%v", p.obj.id, p.path)
		var items []Value
		if v, ok := in.sides[k]; ok {
			items = v.([]Value)
		}
		if iv, ok := a[1].(Iface); ok && iv.t != nil {
			in.sides[k] = append(items, a[1])
		}
		return nil, true
	})

	// ---- sync.Map: a plain map kept in a side table (operations are visible points)
	syncMap := func(in *Interp, p *Ptr) *MapV {
		k := fmt.Sprintf("syncmap/%d%v", p.obj.id, p.path)
		if v, ok := in.sides[k]; ok {
			return v.(*MapV)
		}
		in.nextObj++
		m := &MapV{id: in.nextObj, idx: map[string]int{}}
		in.sides[k] = m
		return m
	}
	reg("(*sync.Map).Load", func(in *Interp, _ *Frame, _ *ssa.Function, a []Value) (Value, bool) {
		in.sched.yield()
		m := syncMap(in, ptr0(a))
		if i := in.mapFind(m, a[1]); i >= 0 {
			return TupleV{m.entries[i].v, in.F.Bool(true)}, true
		}
		return TupleV{Iface{}, in.F.Bool(false)}, true
	})
	reg("(*sync.Map).Store", func(in *Interp, _ *Frame, _ *ssa.Function, a []Value) (Value, bool) {
		in.sched.yield()
		in.mapSet(syncMap(in, ptr0(a)), a[1], a[2])
		return nil, true
	})
	reg("(*sync.Map).LoadOrStore", func(in *Interp, _ *Frame, _ *ssa.Function, a []Value) (Value, bool) {
		in.sched.yield()
		m := syncMap(in, ptr0(a))
		if i := in.mapFind(m, a[1]); i >= 0 {
			return TupleV{m.entries[i].v, in.F.Bool(true)}, true
		}
		in.mapSet(m, a[1], a[2])
		return TupleV{a[2], in.F.Bool(false)}, true
	})
	reg("(*sync.Map).LoadAndDelete", func(in *Interp, _ *Frame, _ *ssa.Function, a []Value) (Value, bool) {
		in.sched.yield()
		m := syncMap(in, ptr0(a))
		if i := in.mapFind(m, a[1]); i >= 0 {
			v := m.entries[i].v
			in.mapDelete(m, a[1])
			return TupleV{v, in.F.Bool(true)}, true
		}
		return TupleV{Iface{}, in.F.Bool(false)}, true
	})
	reg("(*sync.Map).Delete", func(in *Interp, _ *Frame, _ *ssa.Function, a []Value) (Value, bool) {
		in.sched.yield()
		in.mapDelete(syncMap(in, ptr0(a)), a[1])
		return nil, true
	})
	reg("(*sync.Map).Range", func(in *Interp, caller *Frame, _ *ssa.Function, a []Value) (Value, bool) {
		in.sched.yield()
		m := syncMap(in, ptr0(a))
		for _, e := range append([]*MapEntry{}, m.entries...) {
			if e == nil {
				continue
			}
			r := in.call(caller, a[1], []Value{e.k, e.v}, nil)
			if !in.decide(r.(*Term)) {
				break
			}
		}
		return nil, true
	})

	// ---- sync/atomic
	for _, ty := range []string{"Int32", "Int64", "Uint32", "Uint64", "Uintptr", "Pointer"} {
		ty := ty
		reg("sync/atomic.Load"+ty, func(in *Interp, _ *Frame, _ *ssa.Function, a []Value) (Value, bool) {
			in.sched.yield()
			return in.load(a[0]), true
		})
		reg("sync/atomic.Store"+ty, func(in *Interp, _ *Frame, _ *ssa.Function, a []Value) (Value, bool) {
			in.sched.yield()
			in.store(a[0], a[1])
			return nil, true
		})
		reg("sync/atomic.Swap"+ty, func(in *Interp, _ *Frame, _ *ssa.Function, a []Value) (Value, bool) {
			in.sched.yield()
			old := in.load(a[0])
			in.store(a[0], a[1])
			return old, true
		})
		reg("sync/atomic.CompareAndSwap"+ty, func(in *Interp, _ *Frame, _ *ssa.Function, a []Value) (Value, bool) {
			in.sched.yield()
			old := in.load(a[0])
			eq := in.equal(old, a[1])
			if in.decide(eq) {
				in.store(a[0], a[2])
				return in.F.Bool(true), true
			}
			return in.F.Bool(false), true
		})
		if ty != "Pointer" {
			reg("sync/atomic.Add"+ty, func(in *Interp, _ *Frame, _ *ssa.Function, a []Value) (Value, bool) {
				in.sched.yield()
				nv := in.F.Add(in.load(a[0]).(*Term), a[1].(*Term))
				in.store(a[0], nv)
				return nv, true
			})
			reg("sync/atomic.And"+ty, func(in *Interp, _ *Frame, _ *ssa.Function, a []Value) (Value, bool) {
				in.sched.yield()
				old := in.load(a[0]).(*Term)
				in.store(a[0], in.F.BAnd(old, a[1].(*Term)))
				return old, true
			})
			reg("sync/atomic.Or"+ty, func(in *Interp, _ *Frame, _ *ssa.Function, a []Value) (Value, bool) {
				in.sched.yield()
				old := in.load(a[0]).(*Term)
				in.store(a[0], in.F.BOr(old, a[1].(*Term)))
				return old, true
			})
		}
	}
	// atomic.Value: the `v any` field holds the value directly
	avField := func(a []Value) *Ptr { return ptr0(a).child(PE{i: 0}) }
	reg("(*sync/atomic.Value).Load", func(in *Interp, _ *Frame, _ *ssa.Function, a []Value) (Value, bool) {
		in.sched.yield()
		return in.load(avField(a)), true
	})
	reg("(*sync/atomic.Value).Store", func(in *Interp, _ *Frame, _ *ssa.Function, a []Value) (Value, bool) {
		in.sched.yield()
		if iv := a[1].(Iface); iv.t == nil {
			in.goPanicRuntime("sync/atomic: store of nil value into Value")
		}
		in.store(avField(a), a[1])
		return nil, true
	})
	reg("(*sync/atomic.Value).Swap", func(in *Interp, _ *Frame, _ *ssa.Function, a []Value) (Value, bool) {
		in.sched.yield()
		old := in.load(avField(a))
		in.store(avField(a), a[1])
		return old, true
	})
	reg("(*sync/atomic.Value).CompareAndSwap", func(in *Interp, _ *Frame, _ *ssa.Function, a []Value) (Value, bool) {
		in.sched.yield()
		old := in.load(avField(a))
		if in.decide(in.equal(old, a[1])) {
			in.store(avField(a), a[2])
			return in.F.Bool(true), true
		}
		return in.F.Bool(false), true
	})
	// encoding/binary fixed-width accessors as extract/concat over the byte cells,
	// so that Uint64(PutUint64(v)) is syntactically v.
	for _, order := range []string{"littleEndian", "bigEndian"} {
		for _, w := range []int{16, 32, 64} {
			order, w := order, w
			nb := w / 8
			reg(fmt.Sprintf("(encoding/binary.%s).Uint%d", order, w), func(in *Interp, _ *Frame, _ *ssa.Function, a []Value) (Value, bool) {
				s := a[1].(SliceV)
				if s.slen != nil {
					return nil, false
				}
				if s.len < nb {
					in.goPanicRuntime(fmt.Sprintf("index out of range [%d] with length %d", nb-1, s.len))
				}
				els := in.sliceElems(s)
				var acc *Term
				for k := 0; k < nb; k++ { // k-th least significant byte
					idx := k
					if order == "bigEndian" {
						idx = nb - 1 - k
					}
					b := els[idx].(*Term)
					if acc == nil {
						acc = b
					} else {
						acc = in.F.Concat(b, acc)
					}
				}
				return acc, true
			})
			reg(fmt.Sprintf("(encoding/binary.%s).PutUint%d", order, w), func(in *Interp, _ *Frame, _ *ssa.Function, a []Value) (Value, bool) {
				s := a[1].(SliceV)
				if s.slen != nil {
					return nil, false
				}
				if s.len < nb {
					in.goPanicRuntime(fmt.Sprintf("index out of range [%d] with length %d", nb-1, s.len))
				}
				els := in.sliceElems(s)
				v := a[2].(*Term)
				for k := 0; k < nb; k++ {
					idx := k
					if order == "bigEndian" {
						idx = nb - 1 - k
					}
					els[idx] = in.F.Extract(8*k+7, 8*k, v)
				}
				return nil, true
			})
		}
	}
	// pion/randutil generators: opaque identifiers (ufrag, pwd, msid, SSRC...). They are
	// modelled as fixed, pairwise distinct values so that text built from them stays concrete.
	randGen := func(in *Interp, _ *Frame, fn *ssa.Function, a []Value) (Value, bool) {
		in.noteOnce("pion/randutil generators return fixed pairwise-distinct values (identifiers are opaque)")
		next := func(in *Interp) uint64 {
			in.randCount++
			return uint64(in.randCount)
		}
		f := &FakeObj{name: "randutil", methods: map[string]func(in *Interp, args []Value) Value{
			"Intn": func(in *Interp, args []Value) Value {
				n := in.concreteInt(args[1].(*Term), "Intn")
				if n <= 0 {
					in.goPanicRuntime("invalid argument to Intn")
				}
				return in.F.Const(64, next(in)%uint64(n))
			},
			"Uint32": func(in *Interp, args []Value) Value { return in.F.Const(32, 1000000+next(in)) },
			"Uint64": func(in *Interp, args []Value) Value { return in.F.Const(64, 1000000000+next(in)) },
			"GenerateString": func(in *Interp, args []Value) Value {
				n := int(in.concreteInt(args[1].(*Term), "GenerateString"))
				runes, _ := args[2].(Str).Concrete()
				if runes == "" {
					runes = "a"
				}
				k := next(in)
				b := make([]byte, n)
				for i := range b {
					b[i] = runes[int(k+uint64(i)*7)%len(runes)]
				}
				return Str{s: string(b)}
			},
		}}
		rt := fn.Signature.Results().At(0).Type()
		return Iface{t: rt, v: f}, true
	}
	reg("github.com/pion/randutil.NewMathRandomGenerator", randGen)
	reg("github.com/pion/randutil.GenerateCryptoRandomString", func(in *Interp, _ *Frame, _ *ssa.Function, a []Value) (Value, bool) {
		n := int(in.concreteInt(a[0].(*Term), "GenerateCryptoRandomString"))
		runes, _ := a[1].(Str).Concrete()
		if runes == "" {
			runes = "a"
		}
		in.randCount++
		b := make([]byte, n)
		for i := range b {
			b[i] = runes[(in.randCount+i*5)%len(runes)]
		}
		return TupleV{Str{s: string(b)}, Iface{}}, true
	})
	reg("github.com/pion/randutil.CryptoUint64", func(in *Interp, _ *Frame, _ *ssa.Function, a []Value) (Value, bool) {
		in.randCount++
		return TupleV{in.F.Const(64, 7000000000+uint64(in.randCount)), Iface{}}, true
	})
	for _, n := range []string{"math/rand.Uint32", "math/rand.Int31", "math/rand.Int63", "math/rand.Uint64", "math/rand.Int"} {
		reg(n, func(in *Interp, _ *Frame, fn *ssa.Function, a []Value) (Value, bool) {
			in.noteOnce("math/rand returns fixed pairwise-distinct values")
			in.randCount++
			w, _, _ := intWidth(fn.Signature.Results().At(0).Type())
			return in.F.Const(w, 2000000+uint64(in.randCount)), true
		})
	}
	reg("math/rand.Intn", func(in *Interp, _ *Frame, fn *ssa.Function, a []Value) (Value, bool) {
		n := in.concreteInt(a[0].(*Term), "rand.Intn")
		in.randCount++
		return in.F.Const(64, uint64(in.randCount)%uint64(n)), true
	})
	reg("time.runtimeNano", func(in *Interp, _ *Frame, _ *ssa.Function, a []Value) (Value, bool) {
		in.clockTicks++
		return in.F.Const(64, uint64(in.clockTicks)*1000000000), true
	})
	// process environment: no variables set (pion reads only PION_LOG_* there)
	reg("os.Getenv", func(in *Interp, _ *Frame, _ *ssa.Function, a []Value) (Value, bool) {
		in.noteOnce("os.Getenv returns the empty string (no environment variables set)")
		return Str{}, true
	})
	// randomness is environment: arbitrary values
	reg("github.com/pion/webrtc/v4/internal/util.RandUint32", func(in *Interp, _ *Frame, _ *ssa.Function, a []Value) (Value, bool) {
		if in.params["symbolic_random"] != 1 {
			return nil, false // real body over the fixed-value generator
		}
		return in.nondet("env_rand32", BV(32)), true
	})
	reg("github.com/pion/webrtc/v4/internal/util.MathRandAlpha", func(in *Interp, _ *Frame, _ *ssa.Function, a []Value) (Value, bool) {
		if in.params["symbolic_random"] != 1 {
			return nil, false
		}
		n := int(in.concreteInt(a[0].(*Term), "MathRandAlpha"))
		bs := make([]*Term, n)
		for i := range bs {
			b := in.nondet("env_alpha", BV(8))
			lower := in.F.BOr(b, in.F.Const(8, 0x20)) // letters of either case
			in.assertPC(in.F.And(in.F.ULe(in.F.Const(8, 'a'), lower), in.F.ULe(lower, in.F.Const(8, 'z'))))
			bs[i] = b
		}
		return in.strFromBytes(bs), true
	})
	// time.Now: an arbitrary instant (environment); no monotonic reading.
	reg("time.Now", func(in *Interp, _ *Frame, fn *ssa.Function, a []Value) (Value, bool) {
		st := in.zero(fn.Signature.Results().At(0).Type()).(*StructV)
		if in.params["symbolic_time"] != 1 {
			// default: a fixed instant (2026-01-01T00:00:00Z) plus one second per call,
			// so that identifiers formatted from the clock stay concrete; harnesses whose
			// property depends on the clock set the parameter symbolic_time
			in.clockTicks++
			in.noteOnce("time.Now returns a fixed instant (2026-01-01) advancing one second per call")
			st.f[1] = in.F.Const(64, 63902822400+uint64(in.clockTicks))
			return st, true
		}
		sec := in.nondet("env_time_now", BV(64))
		// seconds since year 1 within [1970, 2200): keeps Unix()/UnixNano() free of overflow
		lo, hi := uint64(62135596800), uint64(62135596800+7258118400)
		in.assume(in.F.And(in.F.ULe(in.F.Const(64, lo), sec), in.F.ULt(sec, in.F.Const(64, hi))), "time.Now returns an instant between 1970 and 2200")
		st.f[1] = sec
		return st, true
	})
	reg("internal/abi.NoEscape", func(in *Interp, _ *Frame, _ *ssa.Function, a []Value) (Value, bool) { return a[0], true })
	reg("internal/abi.Escape", func(in *Interp, _ *Frame, _ *ssa.Function, a []Value) (Value, bool) { return a[0], true })
	reg("runtime.KeepAlive", func(in *Interp, _ *Frame, _ *ssa.Function, a []Value) (Value, bool) { return nil, true })
	reg("runtime.Gosched", func(in *Interp, _ *Frame, _ *ssa.Function, a []Value) (Value, bool) {
		in.sched.yield()
		return nil, true
	})
	for _, n := range []string{"Acquire", "Release", "ReleaseMerge", "Disable", "Enable", "Read", "Write", "ReadRange", "WriteRange", "Errors"} {
		reg("internal/race."+n, func(in *Interp, _ *Frame, _ *ssa.Function, a []Value) (Value, bool) { return nil, true })
	}

	reg("internal/bytealg.MakeNoZero", func(in *Interp, _ *Frame, _ *ssa.Function, a []Value) (Value, bool) {
		n := int(in.concreteInt(a[0].(*Term), "MakeNoZero"))
		return in.makeSlice(types.Typ[types.Uint8], n, n), true
	})
	// ---- bytealg leaves (assembly in the real build)
	reg("internal/bytealg.IndexByteString", func(in *Interp, _ *Frame, _ *ssa.Function, a []Value) (Value, bool) {
		return in.indexByte(in.strBytes(a[0].(Str)), a[1].(*Term)), true
	})
	reg("internal/bytealg.IndexByte", func(in *Interp, _ *Frame, _ *ssa.Function, a []Value) (Value, bool) {
		return in.indexByte(in.sliceTerms(a[0].(SliceV)), a[1].(*Term)), true
	})
	reg("internal/bytealg.CountString", func(in *Interp, _ *Frame, _ *ssa.Function, a []Value) (Value, bool) {
		return in.countByte(in.strBytes(a[0].(Str)), a[1].(*Term)), true
	})
	reg("internal/bytealg.Count", func(in *Interp, _ *Frame, _ *ssa.Function, a []Value) (Value, bool) {
		return in.countByte(in.sliceTerms(a[0].(SliceV)), a[1].(*Term)), true
	})
	reg("internal/bytealg.Equal", func(in *Interp, _ *Frame, _ *ssa.Function, a []Value) (Value, bool) {
		return in.bytesEqual(in.sliceTerms(a[0].(SliceV)), in.sliceTerms(a[1].(SliceV))), true
	})
	reg("bytes.Equal", intrinsics["internal/bytealg.Equal"])
	reg("internal/bytealg.Compare", func(in *Interp, _ *Frame, _ *ssa.Function, a []Value) (Value, bool) {
		x, y := in.sliceTerms(a[0].(SliceV)), in.sliceTerms(a[1].(SliceV))
		return in.compareBytes(x, y), true
	})
	reg("bytes.Compare", intrinsics["internal/bytealg.Compare"])
	reg("internal/bytealg.IndexString", func(in *Interp, _ *Frame, _ *ssa.Function, a []Value) (Value, bool) {
		return in.indexSub(in.strBytes(a[0].(Str)), in.strBytes(a[1].(Str))), true
	})
	reg("internal/bytealg.Index", func(in *Interp, _ *Frame, _ *ssa.Function, a []Value) (Value, bool) {
		return in.indexSub(in.sliceTerms(a[0].(SliceV)), in.sliceTerms(a[1].(SliceV))), true
	})
	reg("strings.Index", func(in *Interp, _ *Frame, _ *ssa.Function, a []Value) (Value, bool) {
		return in.indexSub(in.strBytes(a[0].(Str)), in.strBytes(a[1].(Str))), true
	})
	reg("strings.EqualFold", func(in *Interp, _ *Frame, _ *ssa.Function, a []Value) (Value, bool) {
		x, y := a[0].(Str), a[1].(Str)
		if cx, ok := x.Concrete(); ok {
			if cy, ok := y.Concrete(); ok {
				return in.F.Bool(strings.EqualFold(cx, cy)), true
			}
		}
		return in.equalFoldASCII(x, y), true
	})
	reg("strings.ToLower", func(in *Interp, _ *Frame, _ *ssa.Function, a []Value) (Value, bool) {
		x := a[0].(Str)
		if cx, ok := x.Concrete(); ok {
			return Str{s: strings.ToLower(cx)}, true
		}
		return in.mapASCII(x, false), true
	})
	reg("strings.ToUpper", func(in *Interp, _ *Frame, _ *ssa.Function, a []Value) (Value, bool) {
		x := a[0].(Str)
		if cx, ok := x.Concrete(); ok {
			return Str{s: strings.ToUpper(cx)}, true
		}
		return in.mapASCII(x, true), true
	})

	// ---- errors
	reg("errors.Is", func(in *Interp, caller *Frame, _ *ssa.Function, a []Value) (Value, bool) {
		return in.F.Bool(in.errorsIs(caller, a[0].(Iface), a[1].(Iface), 0)), true
	})
	reg("errors.As", func(in *Interp, caller *Frame, fn *ssa.Function, a []Value) (Value, bool) {
		return in.F.Bool(in.errorsAs(caller, a[0].(Iface), a[1].(Iface), 0)), true
	})
	reg("fmt.Errorf", func(in *Interp, caller *Frame, _ *ssa.Function, a []Value) (Value, bool) {
		return in.fmtErrorf(caller, a[0].(Str), a[1].(SliceV)), true
	})
	reg("fmt.Sprintf", func(in *Interp, caller *Frame, _ *ssa.Function, a []Value) (Value, bool) {
		f, ok := a[0].(Str).Concrete()
		if !ok {
			panic(&pathEnd{kind: "unsupported", msg: "Sprintf with symbolic format"})
		}
		return in.sprintf(caller, f, in.sliceElems(a[1].(SliceV))), true
	})
	reg("fmt.Sprint", func(in *Interp, caller *Frame, _ *ssa.Function, a []Value) (Value, bool) {
		els := in.sliceElems(a[0].(SliceV))
		f := strings.Repeat("%v", len(els))
		return in.sprintf(caller, f, els), true
	})
	for _, n := range []string{"fmt.Println", "fmt.Printf", "fmt.Print", "fmt.Fprintf", "fmt.Fprintln", "fmt.Fprint", "log.Printf", "log.Println"} {
		reg(n, func(in *Interp, _ *Frame, fn *ssa.Function, a []Value) (Value, bool) {
			res := fn.Signature.Results()
			if res.Len() == 0 {
				return nil, true
			}
			return TupleV{in.F.Const(64, 0), Iface{}}, true
		})
	}
	registerNativeCallouts()
}

type probe struct {
	name string
	t    *Term
}

type pendKey struct {
	label, name string
	t           *Term
}

func (in *Interp) takeKeys(label string) ([]*Term, []string) {
	var kt []*Term
	var kn []string
	var rest []pendKey
	for _, k := range in.pendKeys {
		if k.label == label {
			kt = append(kt, k.t)
			kn = append(kn, k.name)
		} else {
			rest = append(rest, k)
		}
	}
	in.pendKeys = rest
	return kt, kn
}

func (in *Interp) sliceTerms(s SliceV) []*Term {
	els := in.sliceElems(s)
	r := make([]*Term, len(els))
	for i, e := range els {
		r[i] = e.(*Term)
	}
	return r
}

func (in *Interp) indexByte(bs []*Term, c *Term) Value {
	F := in.F
	// term-valued: first position whose byte equals c, else -1
	res := F.Const(64, ^uint64(0))
	for i := len(bs) - 1; i >= 0; i-- {
		res = F.Ite(F.Eq(bs[i], c), F.Const(64, uint64(i)), res)
	}
	return res
}

func (in *Interp) countByte(bs []*Term, c *Term) Value {
	F := in.F
	res := F.Const(64, 0)
	for _, b := range bs {
		res = F.Add(res, F.Ite(F.Eq(b, c), F.Const(64, 1), F.Const(64, 0)))
	}
	return res
}

func (in *Interp) bytesEqual(x, y []*Term) Value {
	if len(x) != len(y) {
		return in.F.Bool(false)
	}
	res := in.F.Bool(true)
	for i := range x {
		res = in.F.And(res, in.F.Eq(x[i], y[i]))
	}
	return res
}

func (in *Interp) compareBytes(x, y []*Term) Value {
	F := in.F
	n := len(x)
	if len(y) < n {
		n = len(y)
	}
	var tail int64
	if len(x) < len(y) {
		tail = -1
	} else if len(x) > len(y) {
		tail = 1
	}
	res := F.Const(64, uint64(tail))
	for i := n - 1; i >= 0; i-- {
		res = F.Ite(F.ULt(x[i], y[i]), F.Const(64, ^uint64(0)), F.Ite(F.ULt(y[i], x[i]), F.Const(64, 1), res))
	}
	return res
}

func (in *Interp) indexSub(s, sub []*Term) Value {
	F := in.F
	res := F.Const(64, ^uint64(0))
	if len(sub) == 0 {
		return F.Const(64, 0)
	}
	for i := len(s) - len(sub); i >= 0; i-- {
		m := F.Bool(true)
		for j := range sub {
			m = F.And(m, F.Eq(s[i+j], sub[j]))
		}
		res = F.Ite(m, F.Const(64, uint64(i)), res)
	}
	return res
}

func (in *Interp) lowerByte(b *Term) *Term {
	F := in.F
	isUp := F.And(F.ULe(F.Const(8, 'A'), b), F.ULe(b, F.Const(8, 'Z')))
	return F.Ite(isUp, F.Add(b, F.Const(8, 32)), b)
}

func (in *Interp) upperByte(b *Term) *Term {
	F := in.F
	isLo := F.And(F.ULe(F.Const(8, 'a'), b), F.ULe(b, F.Const(8, 'z')))
	return F.Ite(isLo, F.Sub(b, F.Const(8, 32)), b)
}

func (in *Interp) assumeASCII(bs []*Term) {
	all := in.F.Bool(true)
	for _, b := range bs {
		if !b.konst {
			c := in.F.ULt(b, in.F.Const(8, 0x80))
			if in.assumed == nil || !in.assumed[c] {
				all = in.F.And(all, c)
			}
		} else if b.cv >= 0x80 {
			panic(&pathEnd{kind: "unsupported", msg: "case folding of non-ASCII partially symbolic string"})
		}
	}
	if !all.IsTrue() {
		// one feasibility query for the whole string
		in.assumeNoted(all, "symbolic string bytes passed to case-folding functions are ASCII")
		for _, b := range bs {
			if !b.konst {
				in.assumed[in.F.ULt(b, in.F.Const(8, 0x80))] = true
			}
		}
	}
}

func (in *Interp) equalFoldASCII(x, y Str) Value {
	if x.Len() != y.Len() {
		// non-ASCII folding can change byte length; both are assumed ASCII
		in.assumeASCII(in.strBytes(x))
		in.assumeASCII(in.strBytes(y))
		return in.F.Bool(false)
	}
	xb, yb := in.strBytes(x), in.strBytes(y)
	in.assumeASCII(xb)
	in.assumeASCII(yb)
	res := in.F.Bool(true)
	for i := range xb {
		res = in.F.And(res, in.F.Eq(in.lowerByte(xb[i]), in.lowerByte(yb[i])))
	}
	return res
}

func (in *Interp) mapASCII(x Str, upper bool) Value {
	xb := in.strBytes(x)
	in.assumeASCII(xb)
	r := make([]*Term, len(xb))
	for i, b := range xb {
		if upper {
			r[i] = in.upperByte(b)
		} else {
			r[i] = in.lowerByte(b)
		}
	}
	return in.strFromBytes(r)
}

// ---- errors

func (in *Interp) methodOf(t types.Type, name string) *ssa.Function {
	ms := in.prog.MethodSets.MethodSet(t)
	for i := 0; i < ms.Len(); i++ {
		sel := ms.At(i)
		if sel.Obj().Name() == name {
			return in.prog.MethodValue(sel)
		}
	}
	return nil
}

func (in *Interp) errorsIs(caller *Frame, err, target Iface, depth int) bool {
	if depth > 32 {
		panic(engineErr("errors.Is chain too deep"))
	}
	if err.t == nil || target.t == nil {
		return err.t == nil && target.t == nil
	}
	if types.Comparable(target.t) && types.Identical(err.t, target.t) {
		if in.decide(in.equal(err.v, target.v)) {
			return true
		}
	}
	if m := in.methodOf(err.t, "Is"); m != nil && m.Signature.Params().Len() == 1 && m.Signature.Results().Len() == 1 {
		r := in.callFn(caller, m, []Value{err.v, target}, nil, nil)
		if in.decide(r.(*Term)) {
			return true
		}
	}
	if m := in.methodOf(err.t, "Unwrap"); m != nil && m.Signature.Results().Len() == 1 {
		r := in.callFn(caller, m, []Value{err.v}, nil, nil)
		switch u := r.(type) {
		case Iface:
			if u.t == nil {
				return false
			}
			return in.errorsIs(caller, u, target, depth+1)
		case SliceV:
			for _, e := range in.sliceElems(u) {
				if in.errorsIs(caller, e.(Iface), target, depth+1) {
					return true
				}
			}
		}
	}
	return false
}

func (in *Interp) errorsAs(caller *Frame, err, target Iface, depth int) bool {
	if depth > 32 {
		panic(engineErr("errors.As chain too deep"))
	}
	if target.t == nil {
		in.goPanicRuntime("errors: target cannot be nil")
	}
	pt, ok := target.t.Underlying().(*types.Pointer)
	if !ok {
		in.goPanicRuntime("errors: target must be a non-nil pointer")
	}
	et := pt.Elem()
	if err.t == nil {
		return false
	}
	if it, isI := et.Underlying().(*types.Interface); isI {
		if in.implements(err.t, it) {
			in.store(target.v, err)
			return true
		}
	} else if types.Identical(err.t, et) {
		in.store(target.v, err.v)
		return true
	}
	if m := in.methodOf(err.t, "As"); m != nil && m.Signature.Params().Len() == 1 {
		r := in.callFn(caller, m, []Value{err.v, target}, nil, nil)
		if in.decide(r.(*Term)) {
			return true
		}
	}
	if m := in.methodOf(err.t, "Unwrap"); m != nil && m.Signature.Results().Len() == 1 {
		r := in.callFn(caller, m, []Value{err.v}, nil, nil)
		switch u := r.(type) {
		case Iface:
			if u.t == nil {
				return false
			}
			return in.errorsAs(caller, u, target, depth+1)
		case SliceV:
			for _, e := range in.sliceElems(u) {
				if in.errorsAs(caller, e.(Iface), target, depth+1) {
					return true
				}
			}
		}
	}
	return false
}

// stringify renders a value the way fmt's %v/%s would for the cases that
// occur in pion: basic values, strings, Stringers and errors.
func (in *Interp) stringify(caller *Frame, v Value) (string, bool) {
	iv, ok := v.(Iface)
	if !ok {
		return "", false
	}
	if iv.t == nil {
		return "<nil>", true
	}
	if m := in.methodOf(iv.t, "Error"); m != nil && m.Signature.Params().Len() == 0 {
		if p, isP := iv.v.(*Ptr); isP && p == nil {
			return "<nil>", true
		}
		r := in.callFn(caller, m, []Value{iv.v}, nil, nil)
		return r.(Str).Concrete()
	}
	if m := in.methodOf(iv.t, "String"); m != nil && m.Signature.Params().Len() == 0 && m.Signature.Results().Len() == 1 {
		if p, isP := iv.v.(*Ptr); isP && p == nil {
			return "<nil>", true
		}
		r := in.callFn(caller, m, []Value{iv.v}, nil, nil)
		if s, ok := r.(Str); ok {
			return s.Concrete()
		}
	}
	return "", false
}

// symPlaceholder stands for the rendering of a symbolic value. It is only
// acceptable inside error messages (fmt.Errorf); anywhere else the formatted
// text could influence behaviour, so the path is declared unsupported.
func (in *Interp) symPlaceholder() string {
	if in.symFmtOK == 0 {
		panic(&pathEnd{kind: "unsupported", msg: "formatting of a symbolic value outside an error message"})
	}
	in.noteOnce("text of error messages that format symbolic values is a placeholder")
	return "<sym>"
}

func (in *Interp) noteOnce(note string) {
	for _, x := range in.res.Assumes {
		if x == note {
			return
		}
	}
	in.res.Assumes = append(in.res.Assumes, note)
}

func (in *Interp) nativeArg(caller *Frame, verb byte, v Value) (interface{}, bool) {
	iv, ok := v.(Iface)
	if !ok {
		return nil, false
	}
	if iv.t == nil {
		return nil, true
	}
	if verb == 's' || verb == 'v' || verb == 'q' || verb == 'w' {
		if s, ok := in.stringify(caller, v); ok {
			return s, true
		}
	}
	switch x := iv.v.(type) {
	case Str:
		s, ok := x.Concrete()
		if !ok {
			return in.symPlaceholder(), true
		}
		return s, true
	case *Term:
		if !x.konst {
			return in.symPlaceholder(), true
		}
		if x.sort.K == SBool {
			return x.cv == 1, true
		}
		if x.sort.K == SFP64 {
			return x.fv, true
		}
		_, signed, _ := intWidth(iv.t)
		if signed {
			return sext(x.cv, x.sort.W), true
		}
		return x.cv, true
	case SliceV:
		els := in.sliceElems(x)
		// []byte / []string
		var bs []byte
		var ss []string
		for _, e := range els {
			switch ev := e.(type) {
			case *Term:
				if !ev.konst {
					return in.symPlaceholder(), true
				}
				bs = append(bs, byte(ev.cv))
			case Str:
				s, _ := ev.Concrete()
				ss = append(ss, s)
			default:
				return "<slice>", true
			}
		}
		if ss != nil {
			return ss, true
		}
		return bs, true
	case *Ptr:
		if x == nil {
			return "<nil>", true
		}
		return fmt.Sprintf("0xc%07x", x.obj.id), true
	}
	return fmt.Sprintf("<%s>", iv.t.String()), true
}

func (in *Interp) sprintf(caller *Frame, format string, args []Value) Value {
	// walk verbs to know which conversion applies to which argument
	var nat []interface{}
	ai := 0
	for i := 0; i < len(format); i++ {
		if format[i] != '%' {
			continue
		}
		i++
		for i < len(format) && strings.IndexByte("+-# 0123456789.*", format[i]) >= 0 {
			i++
		}
		if i >= len(format) {
			break
		}
		if format[i] == '%' {
			continue
		}
		if ai < len(args) {
			a, ok := in.nativeArg(caller, format[i], args[ai])
			if !ok {
				panic(&pathEnd{kind: "unsupported", msg: "Sprintf argument"})
			}
			nat = append(nat, a)
			ai++
		}
	}
	for ; ai < len(args); ai++ {
		a, _ := in.nativeArg(caller, 'v', args[ai])
		nat = append(nat, a)
	}
	f := strings.ReplaceAll(format, "%w", "%v")
	return Str{s: fmt.Sprintf(f, nat...)}
}

func (in *Interp) fmtErrorf(caller *Frame, format Str, args SliceV) Value {
	f, ok := format.Concrete()
	if !ok {
		panic(&pathEnd{kind: "unsupported", msg: "Errorf with symbolic format"})
	}
	els := in.sliceElems(args)
	in.symFmtOK++
	msg := in.sprintf(caller, f, els)
	in.symFmtOK--
	// find %w operands
	var wrapped []Iface
	ai := 0
	for i := 0; i < len(f); i++ {
		if f[i] != '%' {
			continue
		}
		i++
		for i < len(f) && strings.IndexByte("+-# 0123456789.*", f[i]) >= 0 {
			i++
		}
		if i >= len(f) {
			break
		}
		if f[i] == '%' {
			continue
		}
		if f[i] == 'w' && ai < len(els) {
			if iv, ok := els[ai].(Iface); ok && iv.t != nil {
				if inner, ok := iv.v.(Iface); ok {
					iv = inner
				}
				wrapped = append(wrapped, iv)
			}
		}
		ai++
	}
	fmtPkg := in.prog.ImportedPackage("fmt")
	errPkg := in.prog.ImportedPackage("errors")
	switch {
	case len(wrapped) == 1 && fmtPkg != nil:
		t := fmtPkg.Type("wrapError").Type()
		o := in.newObject(t, &StructV{f: []Value{msg, wrapped[0]}}, "wrapError")
		return Iface{t: types.NewPointer(t), v: &Ptr{obj: o}}
	case len(wrapped) > 1 && fmtPkg != nil:
		t := fmtPkg.Type("wrapErrors").Type()
		sl := in.makeSlice(types.Universe.Lookup("error").Type(), len(wrapped), len(wrapped))
		for i, w := range wrapped {
			sl.obj.val.(*ArrayV).e[i] = w
		}
		o := in.newObject(t, &StructV{f: []Value{msg, sl}}, "wrapErrors")
		return Iface{t: types.NewPointer(t), v: &Ptr{obj: o}}
	}
	t := errPkg.Type("errorString").Type()
	o := in.newObject(t, &StructV{f: []Value{msg}}, "errorString")
	return Iface{t: types.NewPointer(t), v: &Ptr{obj: o}}
}
