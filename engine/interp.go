package main

// Symbolic interpreter over go/ssa.

import (
	"fmt"
	"go/constant"
	"go/token"
	"go/types"
	"runtime"
	"runtime/debug"
	"sync"

	"golang.org/x/tools/go/ssa"
)

// ---- control-flow signals (Go panics used internally)

// GoPanic is a panic of the interpreted program.
type GoPanic struct {
	val   Value // Iface
	trace string
}

// pathEnd aborts the current path (infeasible assume, budget, engine error).
type pathEnd struct {
	kind string // "assume", "unsupported", "budget", "abort"
	msg  string
}

type fnInfo struct {
	index map[ssa.Value]int
	n     int
}

type deferred struct {
	fn    Value
	args  []Value
	instr *ssa.Defer
}

type Frame struct {
	in        *Interp
	th        *Thread
	caller    *Frame
	fn        *ssa.Function
	info      *fnInfo
	env       []Value
	block     *ssa.BasicBlock
	prev      *ssa.BasicBlock
	defers    []*deferred
	result    Value
	panicking bool
	panicVal  *GoPanic
	loopCnt   map[*ssa.BasicBlock]int
	phiOverride []Value
}

type Interp struct {
	eng  *Engine
	F    *Factory
	S    *Solver
	prog *ssa.Program

	// path state
	prefix    []Decision
	taken     []Decision
	globals   map[*ssa.Global]*Object
	initDone  map[*ssa.Package]bool
	nextObj   int
	inputs    []*Term
	inputSeen map[string]int
	pcCount   int
	steps     int
	depth     int
	locks     map[string]*lockState
	sides     map[string]Value // side tables (atomic.Value, once, waitgroups...)
	observed  []string
	cur       *Thread
	threads   []*Thread
	sched     *Scheduler
	res       *PathResult
	funcsSeen map[*ssa.Function]bool
	noFork    int
	params    map[string]int64
	eng2      *Explorer
	spec      int
	merges    int
	curFn     *ssa.Function
	probes    []probe
	clockTicks int
	randCount  int
	fixed     map[string]uint64
	symFmtOK  int
	initBroken map[*ssa.Package]bool
	assumed   map[*Term]bool
	pendKeys  []pendKey
}

var fnInfoCache sync.Map

func getFnInfo(fn *ssa.Function) *fnInfo {
	if v, ok := fnInfoCache.Load(fn); ok {
		return v.(*fnInfo)
	}
	fi := &fnInfo{index: map[ssa.Value]int{}}
	add := func(v ssa.Value) {
		fi.index[v] = fi.n
		fi.n++
	}
	for _, p := range fn.Params {
		add(p)
	}
	for _, fv := range fn.FreeVars {
		add(fv)
	}
	for _, b := range fn.Blocks {
		for _, ins := range b.Instrs {
			if v, ok := ins.(ssa.Value); ok {
				add(v)
			}
		}
	}
	fnInfoCache.Store(fn, fi)
	return fi
}

func (fr *Frame) get(v ssa.Value) Value {
	switch k := v.(type) {
	case nil:
		return nil
	case *ssa.Const:
		return fr.in.constValue(k)
	case *ssa.Function:
		return &Closure{fn: k}
	case *ssa.Builtin:
		return k
	case *ssa.Global:
		return &Ptr{obj: fr.in.global(k)}
	}
	i, ok := fr.info.index[v]
	if !ok {
		panic(engineErr(fmt.Sprintf("get: no slot for %T %s in %s", v, v.Name(), fr.fn)))
	}
	return fr.env[i]
}

func (fr *Frame) set(v ssa.Value, x Value) {
	fr.env[fr.info.index[v]] = x
}

func (in *Interp) constValue(c *ssa.Const) Value {
	t := c.Type()
	if c.Value == nil {
		// zero value / nil
		if _, ok := t.Underlying().(*types.Basic); ok && t.Underlying().(*types.Basic).Kind() == types.UntypedNil {
			return nil
		}
		return in.zero(t)
	}
	if tp, ok := t.(*types.TypeParam); ok {
		_ = tp
		panic(engineErr("constant of type parameter type"))
	}
	b, ok := t.Underlying().(*types.Basic)
	if !ok {
		panic(engineErr("constValue: non-basic constant type " + t.String()))
	}
	switch {
	case b.Info()&types.IsBoolean != 0:
		return in.F.Bool(constant.BoolVal(c.Value))
	case b.Info()&types.IsString != 0:
		return Str{s: constant.StringVal(c.Value)}
	case b.Info()&types.IsFloat != 0:
		f, _ := constant.Float64Val(constant.ToFloat(c.Value))
		return in.F.Float(f)
	case b.Info()&types.IsInteger != 0:
		w, signed, _ := intWidth(b)
		iv := constant.ToInt(c.Value)
		if signed {
			x, _ := constant.Int64Val(iv)
			return in.F.Const(w, uint64(x))
		}
		x, _ := constant.Uint64Val(iv)
		return in.F.Const(w, x)
	}
	panic(engineErr("constValue: unsupported " + t.String()))
}

func (in *Interp) newObject(t types.Type, v Value, name string) *Object {
	in.nextObj++
	return &Object{id: in.nextObj, val: v, typ: t, name: name}
}

func (in *Interp) global(g *ssa.Global) *Object {
	if in.initBroken[g.Pkg] {
		panic(&pathEnd{kind: "unsupported", msg: "global of a package whose initializer is outside reach: " + g.String()})
	}
	if o, ok := in.globals[g]; ok {
		return o
	}
	// allocate all globals of the package lazily, then run its init.
	pkg := g.Pkg
	for _, m := range pkg.Members {
		if gg, ok := m.(*ssa.Global); ok {
			if _, ok := in.globals[gg]; !ok {
				et := gg.Type().(*types.Pointer).Elem()
				in.globals[gg] = in.newObject(et, in.zero(et), gg.String())
			}
		}
	}
	o := in.globals[g]
	in.ensureInit(pkg)
	return o
}

func (in *Interp) ensureInit(pkg *ssa.Package) {
	if pkg == nil || in.initDone[pkg] {
		return
	}
	in.initDone[pkg] = true
	if !in.eng.initAllowed(pkg) {
		return
	}
	initFn := pkg.Func("init")
	if initFn == nil || initFn.Blocks == nil {
		return
	}
	// globals of this package must exist before init runs
	for _, m := range pkg.Members {
		if gg, ok := m.(*ssa.Global); ok {
			if _, ok := in.globals[gg]; !ok {
				et := gg.Type().(*types.Pointer).Elem()
				in.globals[gg] = in.newObject(et, in.zero(et), gg.String())
			}
		}
	}
	in.noFork++
	saved := in.cur
	in.callSSA(nil, initFn, nil, nil)
	in.cur = saved
	in.noFork--
}

// ---- calls

func (in *Interp) call(caller *Frame, fv Value, args []Value, site ssa.Instruction) Value {
	switch f := fv.(type) {
	case *Closure:
		if f == nil {
			in.goPanicRuntime("invalid memory address or nil pointer dereference (nil func call)")
		}
		return in.callFn(caller, f.fn, args, f.env, site)
	case *NativeFn:
		return f.fn(in, args)
	case *ssa.Builtin:
		return in.callBuiltin(caller, f, args, site)
	}
	panic(engineErr(fmt.Sprintf("call of non-function %T", fv)))
}

func (in *Interp) callFn(caller *Frame, fn *ssa.Function, args []Value, env []Value, site ssa.Instruction) Value {
	name := fn.String()
	if fn.Origin() != nil {
		name = fn.Origin().String()
	}
	if h, ok := in.eng.replace[name]; ok {
		// a replacement may wrap the original: a call from the replacement
		// itself reaches the real function
		if caller == nil || caller.fn != h {
			return in.callFn(caller, h, args, nil, site)
		}
	}
	if intr, ok := intrinsics[name]; ok {
		if r, handled := intr(in, caller, fn, args); handled {
			return r
		}
	}
	if in.noFork > 0 {
		// inside a package initializer: other packages initialise lazily, and
		// calls outside reach yield a poison value that faults if ever used.
		if fn.Synthetic == "package initializer" {
			return nil
		}
		if fn.Blocks == nil || in.eng.denied(fn) {
			return Poison{}
		}
	}
	if fn.Blocks == nil {
		// external function without body
		if fn.Synthetic != "" || fn.Pkg == nil {
			panic(&pathEnd{kind: "unsupported", msg: "no body: " + name})
		}
		panic(&pathEnd{kind: "unsupported", msg: "external function " + name})
	}
	if in.eng.denied(fn) {
		panic(&pathEnd{kind: "unsupported", msg: "call into unmodelled package: " + name})
	}
	return in.callSSA(caller, fn, args, env)
}

// initAbort gives up on the innermost function during package initialisation.
type initAbort struct{}

func (in *Interp) callSSA(caller *Frame, fn *ssa.Function, args []Value, env []Value) (result Value) {
	in.depth++
	if in.depth > 400 {
		panic(&pathEnd{kind: "budget", msg: "call depth exceeded in " + fn.String()})
	}
	savedFn := in.curFn
	in.curFn = fn
	th := in.cur
	if th != nil {
		th.stack = append(th.stack, fn)
	}
	defer func() {
		in.depth--
		in.curFn = savedFn
		if in.noFork == 0 {
			// annotate engine faults with the interpreted call stack (innermost frame only)
			if r := recover(); r != nil {
				switch e := r.(type) {
				case *EngineError:
					if !e.located {
						e.msg += in.stackString()
						e.located = true
					}
				case runtime.Error:
					r = &EngineError{msg: e.Error() + in.stackString() + "\n" + string(debug.Stack()), located: true}
				}
				if th != nil {
					th.stack = th.stack[:len(th.stack)-1]
				}
				panic(r)
			}
		}
		if th != nil {
			th.stack = th.stack[:len(th.stack)-1]
		}
		if in.noFork > 0 {
			if r := recover(); r != nil {
				abort := false
				if _, ok := r.(initAbort); ok {
					abort = true
				}
				if pe, ok := r.(*pathEnd); ok && (pe.kind == "unwind" || pe.kind == "unsupported" || pe.kind == "budget") {
					abort = true
				}
				if !abort {
					panic(r)
				}
				if fn.Synthetic == "package initializer" {
					// the package's own initializer could not complete: its globals are unusable
					in.initBroken[fn.Pkg] = true
				}
				result = Poison{}
			}
		}
	}()
	if in.funcsSeen != nil {
		in.funcsSeen[fn] = true
	}
	info := getFnInfo(fn)
	fr := &Frame{in: in, caller: caller, fn: fn, info: info, env: make([]Value, info.n), th: in.cur}
	for i, p := range fn.Params {
		fr.env[info.index[p]] = args[i]
	}
	for i, fv := range fn.FreeVars {
		fr.env[info.index[fv]] = env[i]
	}
	fr.block = fn.Blocks[0]
	for fr.block != nil {
		in.runBody(fr)
	}
	return fr.result
}

// runBody runs fr until it returns; converts target panics into the
// defer/recover protocol.
func (in *Interp) runBody(fr *Frame) {
	defer func() {
		if fr.block == nil {
			return // normal return
		}
		r := recover()
		if r == nil {
			return
		}
		gp, ok := r.(*GoPanic)
		if !ok {
			panic(r)
		}
		fr.panicking = true
		fr.panicVal = gp
		fr.runDefers()
		// recovered (runDefers re-panics otherwise)
		if fr.fn.Recover != nil {
			fr.block = fr.fn.Recover
			fr.prev = nil
		} else {
			fr.block = nil
			// zero results
			res := fr.fn.Signature.Results()
			switch res.Len() {
			case 0:
				fr.result = nil
			case 1:
				fr.result = in.zero(res.At(0).Type())
			default:
				fr.result = in.zero(res)
			}
		}
	}()
	for fr.block != nil {
		blk := fr.block
		if fr.loopCnt == nil {
			fr.loopCnt = map[*ssa.BasicBlock]int{}
		}
		fr.loopCnt[blk]++
		if fr.loopCnt[blk] > in.eng.unwindFor(fr.fn) {
			if in.eng.fairLoops[fr.fn.String()] {
				// a spin loop waiting for another thread: schedules that starve that
				// thread forever are excluded (fair-scheduler assumption, recorded)
				in.noteOnce("fair scheduling: spin loop in " + fr.fn.String() + " is not starved forever")
				panic(&pathEnd{kind: "assume", msg: "unfair schedule (spin loop bound)"})
			}
			panic(&pathEnd{kind: "unwind", msg: fmt.Sprintf("unwinding bound reached in %s block %d (%s)", fr.fn, blk.Index, blk.Comment)})
		}
		// phi nodes are evaluated in parallel
		nphi := 0
		for _, ins := range blk.Instrs {
			if _, ok := ins.(*ssa.Phi); !ok {
				break
			}
			nphi++
		}
		if nphi > 0 && fr.phiOverride != nil {
			for k := 0; k < nphi; k++ {
				fr.set(blk.Instrs[k].(*ssa.Phi), fr.phiOverride[k])
			}
			fr.phiOverride = nil
		} else if nphi > 0 {
			tmp := make([]Value, nphi)
			for k := 0; k < nphi; k++ {
				phi := blk.Instrs[k].(*ssa.Phi)
				for i, pred := range blk.Preds {
					if fr.prev == pred {
						tmp[k] = fr.get(phi.Edges[i])
						break
					}
				}
			}
			for k := 0; k < nphi; k++ {
				fr.set(blk.Instrs[k].(*ssa.Phi), tmp[k])
			}
		}
	instrs:
		for _, ins := range blk.Instrs[nphi:] {
			in.steps++
			if in.steps > in.eng.maxSteps {
				panic(&pathEnd{kind: "budget", msg: "step budget exceeded"})
			}
			var k continuation
			if in.noFork > 0 {
				k = in.visitInit(fr, ins)
			} else {
				k = in.visit(fr, ins)
			}
			switch k {
			case kNext:
			case kJump:
				break instrs
			case kReturn:
				fr.block = nil
				return
			}
		}
	}
}

func (fr *Frame) runDefers() {
	in := fr.in
	for len(fr.defers) > 0 {
		d := fr.defers[len(fr.defers)-1]
		fr.defers = fr.defers[:len(fr.defers)-1]
		func() {
			ok := false
			defer func() {
				if ok {
					return
				}
				r := recover()
				if gp, isGp := r.(*GoPanic); isGp {
					fr.panicking = true
					fr.panicVal = gp
					return
				}
				panic(r)
			}()
			in.call(fr, d.fn, d.args, d.instr)
			ok = true
		}()
	}
	if fr.panicking {
		panic(fr.panicVal)
	}
}

// Poison stands for a value computed by code outside reach during package
// initialisation. Any later use faults inside the engine (path inconclusive).
type Poison struct{}

// visitInit executes one instruction of a package initializer; an instruction
// that touches a poison value yields poison instead of aborting the path.
func (in *Interp) visitInit(fr *Frame, ins ssa.Instruction) (k continuation) {
	defer func() {
		if r := recover(); r != nil {
			switch r.(type) {
			case runtime.Error, *GoPanic, *EngineError:
				// control flow that depends on a poison value: give up on this function
				switch ins.(type) {
				case *ssa.If, *ssa.Jump, *ssa.Return, *ssa.RunDefers, *ssa.Panic:
					panic(initAbort{})
				}
			}
			if _, ok := r.(runtime.Error); ok {
				if v, isV := ins.(ssa.Value); isV {
					fr.set(v, Poison{})
				}
				k = kNext
				return
			}
			if _, ok := r.(*GoPanic); ok {
				// a target panic caused by un-modelled environment during package init
				if v, isV := ins.(ssa.Value); isV {
					fr.set(v, Poison{})
				}
				k = kNext
				return
			}
			if ee, ok := r.(*EngineError); ok {
				_ = ee
				if v, isV := ins.(ssa.Value); isV {
					fr.set(v, Poison{})
				}
				k = kNext
				return
			}
			panic(r)
		}
	}()
	return in.visit(fr, ins)
}

type continuation int

const (
	kNext continuation = iota
	kReturn
	kJump
)

func (in *Interp) goPanicRuntime(msg string) {
	if in.spec > 0 {
		panic(specAbort{})
	}
	var t types.Type = types.Typ[types.String]
	if in.eng.runtimeErrType != nil {
		t = in.eng.runtimeErrType
	}
	panic(&GoPanic{val: Iface{t: t, v: Str{s: msg}}, trace: "runtime error: " + msg + in.stackString()})
}

// stackString names the innermost interpreted functions (diagnostics only).
func (in *Interp) stackString() string {
	s := " in"
	if in.cur == nil {
		return s
	}
	st := in.cur.stack
	for i, n := len(st)-1, 0; i >= 0 && n < 6; i, n = i-1, n+1 {
		s += " <- " + st[i].String()
	}
	return s
}

func (in *Interp) visit(fr *Frame, instr ssa.Instruction) continuation {
	switch ins := instr.(type) {
	case *ssa.DebugRef:

	case *ssa.UnOp:
		fr.set(ins, in.unop(fr, ins))

	case *ssa.BinOp:
		fr.set(ins, in.binop(ins.Op, ins.X.Type(), fr.get(ins.X), fr.get(ins.Y), ins))

	case *ssa.Call:
		fn, args := in.prepareCall(fr, &ins.Call)
		fr.set(ins, in.call(fr, fn, args, ins))

	case *ssa.ChangeInterface:
		fr.set(ins, fr.get(ins.X))

	case *ssa.ChangeType:
		fr.set(ins, fr.get(ins.X))

	case *ssa.Convert:
		fr.set(ins, in.convert(ins.X.Type(), ins.Type(), fr.get(ins.X)))

	case *ssa.MultiConvert:
		fr.set(ins, in.convert(ins.X.Type(), ins.Type(), fr.get(ins.X)))

	case *ssa.SliceToArrayPointer:
		s := fr.get(ins.X).(SliceV)
		n := int(ins.Type().(*types.Pointer).Elem().Underlying().(*types.Array).Len())
		if s.len < n {
			in.goPanicRuntime("cannot convert slice with length to array or pointer to array")
		}
		if s.obj == nil {
			fr.set(ins, (*Ptr)(nil))
		} else {
			parent := s.obj.val.(*ArrayV)
			if s.off == 0 && len(parent.e) == n {
				fr.set(ins, &Ptr{obj: s.obj})
			} else {
				// window view: a Go sub-slice of the parent's cells aliases them
				key := fmt.Sprintf("win/%p/%d/%d", parent, s.off, n)
				o, ok := in.sides[key].(*Object)
				if !ok {
					o = in.newObject(nil, &ArrayV{e: parent.e[s.off : s.off+n : s.off+n]}, "window")
					in.sides[key] = o
				}
				fr.set(ins, &Ptr{obj: o})
			}
		}

	case *ssa.MakeInterface:
		fr.set(ins, Iface{t: ins.X.Type(), v: fr.get(ins.X)})

	case *ssa.Extract:
		fr.set(ins, fr.get(ins.Tuple).(TupleV)[ins.Index])

	case *ssa.Slice:
		fr.set(ins, in.sliceOp(fr, ins))

	case *ssa.Return:
		switch len(ins.Results) {
		case 0:
		case 1:
			fr.result = fr.get(ins.Results[0])
		default:
			res := make(TupleV, len(ins.Results))
			for i, r := range ins.Results {
				res[i] = fr.get(r)
			}
			fr.result = res
		}
		return kReturn

	case *ssa.RunDefers:
		fr.runDefers()

	case *ssa.Panic:
		v := fr.get(ins.X)
		panic(&GoPanic{val: v, trace: in.prog.Fset.Position(ins.Pos()).String()})

	case *ssa.Send:
		in.chanSend(fr.get(ins.Chan), fr.get(ins.X))

	case *ssa.Store:
		in.store(fr.get(ins.Addr), fr.get(ins.Val))

	case *ssa.If:
		c := fr.get(ins.Cond).(*Term)
		if !c.konst && in.noFork == 0 && !in.eng.noMerge && in.tryMerge(fr, ins, c) {
			return kJump
		}
		succ := 1
		if in.decide(c) {
			succ = 0
		}
		fr.prev, fr.block = fr.block, fr.block.Succs[succ]
		return kJump

	case *ssa.Jump:
		fr.prev, fr.block = fr.block, fr.block.Succs[0]
		return kJump

	case *ssa.Defer:
		fn, args := in.prepareCall(fr, &ins.Call)
		fr.defers = append(fr.defers, &deferred{fn: fn, args: args, instr: ins})

	case *ssa.Go:
		fn, args := in.prepareCall(fr, &ins.Call)
		in.spawn(fr, fn, args, ins)

	case *ssa.MakeChan:
		n := in.concreteInt(in.idx64(ins.Size.Type(), fr.get(ins.Size).(*Term)), "chan size")
		in.nextObj++
		fr.set(ins, &ChanV{id: in.nextObj, cap: int(n)})

	case *ssa.Alloc:
		et := ins.Type().(*types.Pointer).Elem()
		o := in.newObject(et, in.zero(et), ins.Comment)
		fr.set(ins, &Ptr{obj: o})

	case *ssa.MakeSlice:
		lt := in.idx64(ins.Len.Type(), fr.get(ins.Len).(*Term))
		if !lt.konst && ins.Cap == ins.Len {
			if sv, ok := in.makeSymSlice(ins, lt); ok {
				fr.set(ins, sv)
				break
			}
		}
		l := in.concreteInt(lt, "make len")
		c := in.concreteInt(in.idx64(ins.Cap.Type(), fr.get(ins.Cap).(*Term)), "make cap")
		if l < 0 || c < l || c > 1<<24 {
			in.goPanicRuntime("makeslice: len out of range")
		}
		et := ins.Type().Underlying().(*types.Slice).Elem()
		fr.set(ins, in.makeSlice(et, int(l), int(c)))

	case *ssa.MakeMap:
		in.nextObj++
		fr.set(ins, &MapV{id: in.nextObj, idx: map[string]int{}})

	case *ssa.Range:
		fr.set(ins, in.rangeIter(fr.get(ins.X)))

	case *ssa.Next:
		fr.set(ins, fr.get(ins.Iter).(*iter).next(in, ins))

	case *ssa.FieldAddr:
		p := fr.get(ins.X).(*Ptr)
		if p == nil {
			in.goPanicRuntime("invalid memory address or nil pointer dereference")
		}
		fr.set(ins, p.child(PE{i: ins.Field}))

	case *ssa.Field:
		fr.set(ins, fr.get(ins.X).(*StructV).f[ins.Field])

	case *ssa.IndexAddr:
		fr.set(ins, in.indexAddr(fr.get(ins.X), in.idx64(ins.Index.Type(), fr.get(ins.Index).(*Term))))

	case *ssa.Index:
		fr.set(ins, in.indexVal(fr.get(ins.X), in.idx64(ins.Index.Type(), fr.get(ins.Index).(*Term))))

	case *ssa.Lookup:
		fr.set(ins, in.lookup(ins, fr.get(ins.X), fr.get(ins.Index)))

	case *ssa.MapUpdate:
		m := fr.get(ins.Map).(*MapV)
		if m == nil {
			in.goPanicRuntime("assignment to entry in nil map")
		}
		in.mapSet(m, fr.get(ins.Key), fr.get(ins.Value))

	case *ssa.TypeAssert:
		fr.set(ins, in.typeAssert(ins, fr.get(ins.X).(Iface)))

	case *ssa.MakeClosure:
		var env []Value
		for _, b := range ins.Bindings {
			env = append(env, fr.get(b))
		}
		fr.set(ins, &Closure{fn: ins.Fn.(*ssa.Function), env: env})

	case *ssa.Phi:
		for i, pred := range ins.Block().Preds {
			if fr.prev == pred {
				fr.set(ins, fr.get(ins.Edges[i]))
				break
			}
		}

	case *ssa.Select:
		fr.set(ins, in.selectOp(fr, ins))

	default:
		panic(engineErr(fmt.Sprintf("unsupported instruction %T", instr)))
	}
	return kNext
}

// Phi nodes must be evaluated in parallel; go/ssa places them first in a block.
// Because each reads only values from predecessors (or other phis' old values),
// we approximate with sequential evaluation but snapshot old phi values first.
func init() {}

func (in *Interp) prepareCall(fr *Frame, call *ssa.CallCommon) (Value, []Value) {
	v := fr.get(call.Value)
	var args []Value
	var fn Value
	if call.Method == nil {
		fn = v
	} else {
		if _, isP := v.(Poison); isP {
			return &NativeFn{name: "poison", fn: func(*Interp, []Value) Value { return Poison{} }}, nil
		}
		recv := v.(Iface)
		if recv.t == nil {
			in.goPanicRuntime("invalid memory address or nil pointer dereference (method call on nil interface)")
		}
		if nat, ok := recv.v.(*FakeObj); ok {
			fn = nat.method(in, call.Method)
			args = append(args, recv.v)
		} else {
			f := in.prog.LookupMethod(recv.t, call.Method.Pkg(), call.Method.Name())
			if f == nil {
				panic(engineErr(fmt.Sprintf("method %s not found on %s", call.Method.Name(), recv.t)))
			}
			fn = &Closure{fn: f}
			args = append(args, recv.v)
		}
	}
	for _, a := range call.Args {
		args = append(args, fr.get(a))
	}
	return fn, args
}

func (p *Ptr) child(e PE) *Ptr {
	np := make([]PE, len(p.path)+1)
	copy(np, p.path)
	np[len(p.path)] = e
	return &Ptr{obj: p.obj, path: np}
}

func (in *Interp) posOf(ins ssa.Instruction) string {
	if ins == nil {
		return "?"
	}
	p := ins.Pos()
	if p == token.NoPos {
		return ins.Parent().String()
	}
	return in.prog.Fset.Position(p).String()
}
