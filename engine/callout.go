package main

// Native call-outs: pure standard-library functions are executed natively when
// every argument is concrete. With a symbolic argument the call falls through
// to interpretation of the real body.

import (
	"encoding/hex"
	"encoding/json"
	"go/types"
	"net"
	"reflect"
	"regexp"
	"strconv"
	"strings"
	"unicode"

	"golang.org/x/tools/go/ssa"
)

var nativeFuncs = map[string]interface{}{
	"strings.Split":          strings.Split,
	"strings.SplitN":         strings.SplitN,
	"strings.Fields":         strings.Fields,
	"strings.Join":           strings.Join,
	"strings.TrimSpace":      strings.TrimSpace,
	"strings.Trim":           strings.Trim,
	"strings.TrimLeft":       strings.TrimLeft,
	"strings.TrimRight":      strings.TrimRight,
	"strings.TrimPrefix":     strings.TrimPrefix,
	"strings.TrimSuffix":     strings.TrimSuffix,
	"strings.HasPrefix":      strings.HasPrefix,
	"strings.HasSuffix":      strings.HasSuffix,
	"strings.Contains":       strings.Contains,
	"strings.ContainsRune":   strings.ContainsRune,
	"strings.ContainsAny":    strings.ContainsAny,
	"strings.IndexByte":      strings.IndexByte,
	"strings.IndexRune":      strings.IndexRune,
	"strings.IndexAny":       strings.IndexAny,
	"strings.LastIndex":      strings.LastIndex,
	"strings.LastIndexByte":  strings.LastIndexByte,
	"strings.Repeat":         strings.Repeat,
	"strings.Replace":        strings.Replace,
	"strings.ReplaceAll":     strings.ReplaceAll,
	"strings.Compare":        strings.Compare,
	"strings.Count":          strings.Count,
	"strings.Title":          strings.Title,
	"strings.Cut":            strings.Cut,
	"strings.CutPrefix":      strings.CutPrefix,
	"strings.CutSuffix":      strings.CutSuffix,
	"strconv.Itoa":           strconv.Itoa,
	"strconv.Atoi":           strconv.Atoi,
	"strconv.ParseInt":       strconv.ParseInt,
	"strconv.ParseUint":      strconv.ParseUint,
	"strconv.ParseBool":      strconv.ParseBool,
	"strconv.ParseFloat":     strconv.ParseFloat,
	"strconv.FormatInt":      strconv.FormatInt,
	"strconv.FormatUint":     strconv.FormatUint,
	"strconv.FormatBool":     strconv.FormatBool,
	"strconv.Quote":          strconv.Quote,
	"strconv.Unquote":        strconv.Unquote,
	"strconv.AppendInt":      strconv.AppendInt,
	"strconv.AppendUint":     strconv.AppendUint,
	"encoding/hex.EncodeToString": hex.EncodeToString,
	"encoding/hex.DecodeString":   hex.DecodeString,
	"unicode.IsSpace":        unicode.IsSpace,
	"unicode.IsDigit":        unicode.IsDigit,
	"unicode.IsLetter":       unicode.IsLetter,
	"unicode.IsUpper":        unicode.IsUpper,
	"unicode.IsLower":        unicode.IsLower,
	"unicode.ToLower":        unicode.ToLower,
	"unicode.ToUpper":        unicode.ToUpper,
}

func registerRegexp() {
	intrinsics["regexp.MustCompile"] = func(in *Interp, _ *Frame, _ *ssa.Function, a []Value) (Value, bool) {
		s, ok := a[0].(Str).Concrete()
		if !ok {
			panic(&pathEnd{kind: "unsupported", msg: "regexp.MustCompile of symbolic pattern"})
		}
		return &Native{v: reflect.ValueOf(regexp.MustCompile(s))}, true
	}
	conc := func(in *Interp, v Value) ([]byte, bool) {
		switch x := v.(type) {
		case Str:
			s, ok := x.Concrete()
			return []byte(s), ok
		case SliceV:
			var bs []byte
			for _, e := range in.sliceElems(x) {
				t := e.(*Term)
				if !t.konst {
					return nil, false
				}
				bs = append(bs, byte(t.cv))
			}
			return bs, true
		}
		return nil, false
	}
	match := func(in *Interp, _ *Frame, _ *ssa.Function, a []Value) (Value, bool) {
		re := a[0].(*Native).v.Interface().(*regexp.Regexp)
		bs, ok := conc(in, a[1])
		if !ok {
			// An unanchored search that already succeeds inside the concrete prefix
			// succeeds whatever the remaining (symbolic) bytes are.
			if sl, isSl := a[1].(SliceV); isSl {
				var prefix []byte
				for _, e := range in.sliceElems(sl) {
					t := e.(*Term)
					if !t.konst {
						break
					}
					prefix = append(prefix, byte(t.cv))
				}
				if re.Match(prefix) && !strings.HasSuffix(re.String(), "$") {
					return in.F.Bool(true), true
				}
			}
			panic(&pathEnd{kind: "unsupported", msg: "regexp match on symbolic input"})
		}
		return in.F.Bool(re.Match(bs)), true
	}
	intrinsics["(*regexp.Regexp).Match"] = match
	intrinsics["(*regexp.Regexp).MatchString"] = match
}

// registerJSON: encoding/json (reflection based) is executed natively for the
// only shape the enum types use: a concrete string value / a *string target.
func registerJSON() {
	intrinsics["encoding/json.Marshal"] = func(in *Interp, _ *Frame, fn *ssa.Function, a []Value) (Value, bool) {
		iv, ok := a[0].(Iface)
		if !ok || iv.t == nil || !isString(iv.t) {
			panic(&pathEnd{kind: "unsupported", msg: "json.Marshal of a non-string value"})
		}
		s, conc := iv.v.(Str).Concrete()
		if !conc {
			panic(&pathEnd{kind: "unsupported", msg: "json.Marshal of a symbolic string"})
		}
		b, err := json.Marshal(s)
		res := fn.Signature.Results()
		var ev Value = Iface{}
		if err != nil {
			ev = in.nativeError(err)
		}
		return TupleV{in.fromNative(reflect.ValueOf(b), res.At(0).Type()), ev}, true
	}
	intrinsics["encoding/json.Unmarshal"] = func(in *Interp, _ *Frame, fn *ssa.Function, a []Value) (Value, bool) {
		iv, ok := a[1].(Iface)
		if !ok || iv.t == nil {
			panic(&pathEnd{kind: "unsupported", msg: "json.Unmarshal into nil"})
		}
		pt, isPtr := iv.t.Underlying().(*types.Pointer)
		if !isPtr || !isString(pt.Elem()) {
			panic(&pathEnd{kind: "unsupported", msg: "json.Unmarshal into a non-*string target"})
		}
		data, conc := in.toNative(a[0], reflect.TypeOf([]byte(nil)))
		if !conc {
			panic(&pathEnd{kind: "unsupported", msg: "json.Unmarshal of symbolic bytes"})
		}
		var s string
		if err := json.Unmarshal(data.Bytes(), &s); err != nil {
			return in.nativeError(err), true
		}
		in.store(iv.v, Str{s: s})
		return Iface{}, true
	}
}

func registerNativeCallouts() {
	registerRegexp()
	registerJSON()
	intrinsics["(net.IP).String"] = func(in *Interp, _ *Frame, _ *ssa.Function, a []Value) (Value, bool) {
		v, ok := in.toNative(a[0], reflect.TypeOf([]byte(nil)))
		if !ok {
			return Str{s: in.symPlaceholder()}, true
		}
		return Str{s: net.IP(v.Bytes()).String()}, true
	}
	for name, f := range nativeFuncs {
		rf := reflect.ValueOf(f)
		name := name
		prev := intrinsics[name]
		intrinsics[name] = func(in *Interp, caller *Frame, fn *ssa.Function, args []Value) (Value, bool) {
			rt := rf.Type()
			if rt.NumIn() != len(args) || rt.IsVariadic() {
				if prev != nil {
					return prev(in, caller, fn, args)
				}
				return nil, false
			}
			nat := make([]reflect.Value, len(args))
			for i, a := range args {
				v, ok := in.toNative(a, rt.In(i))
				if !ok {
					if prev != nil {
						return prev(in, caller, fn, args)
					}
					return nil, false // symbolic: interpret the real body
				}
				nat[i] = v
			}
			out := rf.Call(nat)
			res := fn.Signature.Results()
			switch len(out) {
			case 0:
				return nil, true
			case 1:
				return in.fromNative(out[0], res.At(0).Type()), true
			}
			tv := make(TupleV, len(out))
			for i, o := range out {
				tv[i] = in.fromNative(o, res.At(i).Type())
			}
			return tv, true
		}
	}
}

func (in *Interp) toNative(v Value, rt reflect.Type) (reflect.Value, bool) {
	switch rt.Kind() {
	case reflect.String:
		s, ok := v.(Str)
		if !ok {
			return reflect.Value{}, false
		}
		cs, ok := s.Concrete()
		if !ok {
			return reflect.Value{}, false
		}
		return reflect.ValueOf(cs).Convert(rt), true
	case reflect.Bool:
		t, ok := v.(*Term)
		if !ok || !t.konst {
			return reflect.Value{}, false
		}
		return reflect.ValueOf(t.cv == 1), true
	case reflect.Int, reflect.Int8, reflect.Int16, reflect.Int32, reflect.Int64:
		t, ok := v.(*Term)
		if !ok || !t.konst {
			return reflect.Value{}, false
		}
		r := reflect.New(rt).Elem()
		r.SetInt(sext(t.cv, t.sort.W))
		return r, true
	case reflect.Uint, reflect.Uint8, reflect.Uint16, reflect.Uint32, reflect.Uint64:
		t, ok := v.(*Term)
		if !ok || !t.konst {
			return reflect.Value{}, false
		}
		r := reflect.New(rt).Elem()
		r.SetUint(t.cv)
		return r, true
	case reflect.Float64:
		t, ok := v.(*Term)
		if !ok || !t.konst {
			return reflect.Value{}, false
		}
		return reflect.ValueOf(t.fv), true
	case reflect.Slice:
		s, ok := v.(SliceV)
		if !ok {
			return reflect.Value{}, false
		}
		els := in.sliceElems(s)
		r := reflect.MakeSlice(rt, len(els), len(els))
		for i, e := range els {
			ev, ok := in.toNative(e, rt.Elem())
			if !ok {
				return reflect.Value{}, false
			}
			r.Index(i).Set(ev)
		}
		if s.obj == nil {
			r = reflect.Zero(rt)
		}
		return r, true
	}
	return reflect.Value{}, false
}

func (in *Interp) fromNative(rv reflect.Value, t types.Type) Value {
	switch rv.Kind() {
	case reflect.String:
		return Str{s: rv.String()}
	case reflect.Bool:
		return in.F.Bool(rv.Bool())
	case reflect.Int, reflect.Int8, reflect.Int16, reflect.Int32, reflect.Int64:
		w, _, _ := intWidth(t)
		return in.F.Const(w, uint64(rv.Int()))
	case reflect.Uint, reflect.Uint8, reflect.Uint16, reflect.Uint32, reflect.Uint64:
		w, _, _ := intWidth(t)
		return in.F.Const(w, rv.Uint())
	case reflect.Float64:
		return in.F.Float(rv.Float())
	case reflect.Slice:
		if rv.IsNil() {
			return SliceV{}
		}
		et := t.Underlying().(*types.Slice).Elem()
		n := rv.Len()
		sl := in.makeSlice(et, n, n)
		arr := sl.obj.val.(*ArrayV)
		for i := 0; i < n; i++ {
			arr.e[i] = in.fromNative(rv.Index(i), et)
		}
		return sl
	case reflect.Interface:
		// only error results
		if rv.IsNil() {
			return Iface{}
		}
		if e, ok := rv.Interface().(error); ok {
			return in.nativeError(e)
		}
	}
	panic(engineErr("fromNative: unsupported kind " + rv.Kind().String()))
}

// nativeError converts a native error into an interpreted error value.
// strconv.NumError keeps its structure because callers unwrap it.
func (in *Interp) nativeError(e error) Value {
	if ne, ok := e.(*strconv.NumError); ok {
		if pkg := in.prog.ImportedPackage("strconv"); pkg != nil {
			t := pkg.Type("NumError").Type()
			var inner Value = Iface{}
			switch ne.Err {
			case strconv.ErrRange:
				inner = in.load(&Ptr{obj: in.global(pkg.Var("ErrRange"))})
			case strconv.ErrSyntax:
				inner = in.load(&Ptr{obj: in.global(pkg.Var("ErrSyntax"))})
			default:
				inner = in.plainError(ne.Err.Error())
			}
			o := in.newObject(t, &StructV{f: []Value{Str{s: ne.Func}, Str{s: ne.Num}, inner}}, "NumError")
			return Iface{t: types.NewPointer(t), v: &Ptr{obj: o}}
		}
	}
	return in.plainError(e.Error())
}

func (in *Interp) plainError(msg string) Value {
	errPkg := in.prog.ImportedPackage("errors")
	t := errPkg.Type("errorString").Type()
	o := in.newObject(t, &StructV{f: []Value{Str{s: msg}}}, "errorString")
	return Iface{t: types.NewPointer(t), v: &Ptr{obj: o}}
}
