package main

import (
	"fmt"
	"os"
	"sort"
	"sync"
)

var (
	profileOn  = os.Getenv("GOSMT_PROFILE") != ""
	profileMu  sync.Mutex
	profileTab = map[string]int{}
)

func profileCount(k string) {
	profileMu.Lock()
	profileTab[k]++
	profileMu.Unlock()
}

func profileDump() {
	if !profileOn {
		return
	}
	type kv struct {
		k string
		v int
	}
	var all []kv
	for k, v := range profileTab {
		all = append(all, kv{k, v})
	}
	sort.Slice(all, func(i, j int) bool { return all[i].v > all[j].v })
	for i, e := range all {
		if i >= 25 {
			break
		}
		fmt.Fprintf(os.Stderr, "PROFILE %8d %s\n", e.v, e.k)
	}
}
