package main

// Path exploration: decisions, forking by re-execution, obligations.

import (
	"fmt"
	"go/types"
	"os"
	"runtime/debug"
	"sort"
	"strings"
	"sync"
	"time"

	"golang.org/x/tools/go/ssa"
)

type Decision struct {
	Kind byte   // 'b' branch, 'c' choice, 'v' concretised value
	B    bool   // branch taken / (for 'v') equality taken
	N    int    // choice index
	V    uint64 // proposed value for 'v'
}

type Violation struct {
	Label   string            `json:"label"`
	Key     string            `json:"key"`
	Kind    string            `json:"kind"` // assert | panic | deadlock
	Model   map[string]uint64 `json:"model"`
	Choices []int             `json:"choices,omitempty"`
	Detail  string            `json:"detail,omitempty"`
	Harness string            `json:"harness"`
}

type PathResult struct {
	Status      string // ok | assume | unsupported | budget | unwind | error
	Msg         string
	Violations  []*Violation
	Reached     map[string]bool
	Obligations int
	Discharged  int
	NonTrivial  bool
	Assumes     []string
	Decisions   int
	Sample      string
	Funcs       map[*ssa.Function]bool
	Queries     int
	Observed    []string
}

type Engine struct {
	prog           *ssa.Program
	harnessPkg     *ssa.Package
	replace        map[string]*ssa.Function
	maxSteps       int
	unwind         int
	unwindBy       map[string]int
	runtimeErrType types.Type
	implCache      sync.Map
	sortMaps       bool
	mapPermMax     int
	timeoutMs      int
	solverKind     SolverKind
	params         map[string]int64
	allowInit      map[string]bool
	denyPkgs       map[string]bool
	verbose        bool
	maxPaths       int
	noMerge        bool
	fairLoops      map[string]bool
	fixedInputs    map[string]uint64
}

func (e *Engine) unwindFor(fn *ssa.Function) int {
	if n, ok := e.unwindBy[fn.String()]; ok {
		return n
	}
	return e.unwind
}

func (e *Engine) initAllowed(pkg *ssa.Package) bool {
	p := pkg.Pkg.Path()
	if strings.HasPrefix(p, "github.com/pion/webrtc/v4") {
		return true
	}
	return e.allowInit[p]
}

func (e *Engine) denied(fn *ssa.Function) bool {
	if fn.Pkg == nil {
		return false
	}
	if fn.Signature.Recv() != nil && fn.Pkg.Pkg.Path() == "fmt" && strings.Contains(fn.String(), "fmt.wrapError") {
		return false
	}
	return e.denyPkgs[fn.Pkg.Pkg.Path()]
}

// ---- decisions

func (in *Interp) nextDecision() (Decision, bool) {
	i := len(in.taken)
	if i < len(in.prefix) {
		return in.prefix[i], true
	}
	return Decision{}, false
}

func (in *Interp) assertPC(t *Term) {
	in.S.Assert(t)
	in.F.NoteAsserted(t)
	in.pcCount++
}

// decide evaluates a branch condition, forking when both sides are feasible.
func (in *Interp) decide(c *Term) bool {
	if c.konst {
		return c.cv == 1
	}
	if in.spec > 0 {
		panic(specAbort{})
	}
	if in.noFork > 0 {
		panic(engineErr("symbolic branch inside no-fork region (package init)"))
	}
	if d, ok := in.nextDecision(); ok {
		if d.Kind != 'b' {
			panic(engineErr("decision replay mismatch (expected branch)"))
		}
		in.taken = append(in.taken, d)
		if d.B {
			in.assertPC(c)
		} else {
			in.assertPC(in.F.Not(c))
		}
		return d.B
	}
	in.res.NonTrivial = true
	if profileOn && in.curFn != nil {
		profileCount(in.curFn.String())
	}
	rt := in.S.CheckWith(c)
	if rt == Unknown {
		in.solverUnknown("branch feasibility")
	}
	if rt == Unsat {
		// other side must be feasible because the path condition is
		in.taken = append(in.taken, Decision{Kind: 'b', B: false})
		in.assertPC(in.F.Not(c))
		return false
	}
	rf := in.S.CheckWith(in.F.Not(c))
	if rf == Unknown {
		in.solverUnknown("branch feasibility")
	}
	if rf == Unsat {
		in.taken = append(in.taken, Decision{Kind: 'b', B: true})
		in.assertPC(c)
		return true
	}
	// both feasible: fork
	alt := append(append([]Decision{}, in.taken...), Decision{Kind: 'b', B: false})
	in.eng2.push(alt)
	in.taken = append(in.taken, Decision{Kind: 'b', B: true})
	in.assertPC(c)
	return true
}

// choose makes an n-way nondeterministic choice not involving the solver.
func (in *Interp) choose(n int, what string) int {
	if n <= 1 {
		return 0
	}
	if d, ok := in.nextDecision(); ok {
		if d.Kind != 'c' {
			panic(engineErr("decision replay mismatch (expected choice)"))
		}
		in.taken = append(in.taken, d)
		return d.N
	}
	if profileOn {
		fnName := ""
		if in.curFn != nil {
			fnName = in.curFn.String()
		}
		profileCount("choose:" + what + "@" + fnName)
	}
	for k := 1; k < n; k++ {
		alt := append(append([]Decision{}, in.taken...), Decision{Kind: 'c', N: k})
		in.eng2.push(alt)
	}
	in.taken = append(in.taken, Decision{Kind: 'c', N: 0})
	return 0
}

// concretize picks a concrete value for t, forking over all feasible values.
func (in *Interp) concretize(t *Term, what string) uint64 {
	if t.konst {
		return t.cv
	}
	if in.spec > 0 {
		panic(specAbort{})
	}
	for n := 0; ; n++ {
		if n > in.eng.concretizeMax() {
			panic(&pathEnd{kind: "budget", msg: "too many feasible values while concretising " + what})
		}
		var v uint64
		if d, ok := in.nextDecision(); ok {
			if d.Kind != 'v' {
				panic(engineErr("decision replay mismatch (expected value)"))
			}
			in.taken = append(in.taken, d)
			v = d.V
			eq := in.F.Eq(t, in.F.Const(t.sort.W, v))
			if d.B {
				in.assertPC(eq)
				return v
			}
			in.assertPC(in.F.Not(eq))
			continue
		}
		in.res.NonTrivial = true
		r := in.S.Check()
		if r != Sat {
			if r == Unknown {
				in.solverUnknown("concretise")
			}
			panic(engineErr("path condition unsat in concretize"))
		}
		v = in.S.Values([]*Term{t})[t]
		eq := in.F.Eq(t, in.F.Const(t.sort.W, v))
		ro := in.S.CheckWith(in.F.Not(eq))
		if ro == Unknown {
			in.solverUnknown("concretise")
		}
		if ro == Sat {
			alt := append(append([]Decision{}, in.taken...), Decision{Kind: 'v', V: v, B: false})
			in.eng2.push(alt)
		}
		in.taken = append(in.taken, Decision{Kind: 'v', V: v, B: true})
		in.assertPC(eq)
		return v
	}
}

func (e *Engine) concretizeMax() int { return 4096 }

func (in *Interp) solverUnknown(what string) {
	msg := "solver returned unknown during " + what
	if len(in.S.Errors) > 0 {
		msg += ": " + in.S.Errors[0]
	}
	panic(&pathEnd{kind: "unknown", msg: msg})
}

// ---- obligations

func (in *Interp) model() map[string]uint64 {
	var scalars []*Term
	for _, t := range in.inputs {
		if t.sort.K != SArr {
			scalars = append(scalars, t)
		}
	}
	vals := in.S.Values(scalars)
	m := map[string]uint64{}
	for _, t := range scalars {
		m[t.name] = vals[t]
	}
	if len(in.probes) > 0 {
		ts := make([]*Term, len(in.probes))
		for i, p := range in.probes {
			ts[i] = p.t
		}
		pv := in.S.Values(ts)
		for _, p := range in.probes {
			m[p.name] = pv[p.t]
		}
	}
	return m
}

func (in *Interp) choicesTaken() []int {
	var cs []int
	for _, d := range in.taken {
		if d.Kind == 'c' {
			cs = append(cs, d.N)
		}
	}
	return cs
}

// assertObl discharges an assertion; keyTerms (optional) give the finding key.
func (in *Interp) assertObl(c *Term, label string, keyTerms []*Term, keyNames []string) {
	in.res.Obligations++
	if c.IsTrue() {
		in.res.Discharged++
		return
	}
	in.res.NonTrivial = true
	neg := in.F.Not(c)
	seen := 0
	in.S.Push()
	in.S.Assert(neg)
	for {
		r := in.S.Check()
		if r == Unknown {
			in.S.Pop()
			in.solverUnknown("obligation " + label)
		}
		if r == Unsat {
			break
		}
		m := in.model()
		key := label
		if len(keyTerms) > 0 {
			kv := in.S.Values(keyTerms)
			var parts []string
			excl := in.F.Bool(true)
			for i, kt := range keyTerms {
				v := kv[kt]
				if kt.sort.K == SBV {
					parts = append(parts, fmt.Sprintf("%s=%d", keyNames[i], v))
					excl = in.F.And(excl, in.F.Eq(kt, in.F.Const(kt.sort.W, v)))
				} else {
					parts = append(parts, fmt.Sprintf("%s=%v", keyNames[i], v == 1))
					excl = in.F.And(excl, in.F.Eq(kt, in.F.Bool(v == 1)))
				}
			}
			key = label + ":" + strings.Join(parts, ",")
			in.S.Assert(in.F.Not(excl))
		}
		in.res.Violations = append(in.res.Violations, &Violation{Label: label, Key: key, Kind: "assert", Model: m, Choices: in.choicesTaken()})
		seen++
		if len(keyTerms) == 0 || seen >= 64 {
			break
		}
	}
	in.S.Pop()
	if seen == 0 {
		in.res.Discharged++
		return
	}
	// continue the path under the asserted condition (if still feasible)
	if in.S.CheckWith(c) != Sat {
		panic(&pathEnd{kind: "assume", msg: "assertion " + label + " fails on every input of this path"})
	}
	in.assertPC(c)
}

func (in *Interp) assume(c *Term, note string) {
	if c.IsTrue() {
		return
	}
	if c.IsFalse() {
		panic(&pathEnd{kind: "assume", msg: note})
	}
	if in.assumed == nil {
		in.assumed = map[*Term]bool{}
	}
	if in.assumed[c] {
		return
	}
	in.assumed[c] = true
	if profileOn {
		profileCount("assume:" + note)
	}
	if _, ok := in.nextDecision(); !ok || true {
		// feasibility of an assumption is checked once per path
		if in.S.CheckWith(c) != Sat {
			panic(&pathEnd{kind: "assume", msg: note})
		}
	}
	in.assertPC(c)
}

func (in *Interp) assumeNoted(c *Term, note string) {
	for _, a := range in.res.Assumes {
		if a == note {
			in.assume(c, note)
			return
		}
	}
	in.res.Assumes = append(in.res.Assumes, note)
	in.assume(c, note)
}

// ---- frontier and workers

type Explorer struct {
	eng      *Engine
	entry    *ssa.Function
	mu       sync.Mutex
	cond     *sync.Cond
	frontier [][]Decision
	active   int
	results  []*PathResult
	paths    int
	stopped  bool
	solverT  time.Duration
	queries  int
	errors   []string
	deadline time.Time
}

func (x *Explorer) push(p []Decision) {
	x.mu.Lock()
	x.frontier = append(x.frontier, p)
	x.mu.Unlock()
	x.cond.Signal()
}

func (x *Explorer) take() ([]Decision, bool) {
	x.mu.Lock()
	defer x.mu.Unlock()
	for {
		if x.stopped {
			return nil, false
		}
		if n := len(x.frontier); n > 0 {
			p := x.frontier[n-1]
			x.frontier = x.frontier[:n-1]
			x.active++
			return p, true
		}
		if x.active == 0 {
			x.cond.Broadcast()
			return nil, false
		}
		x.cond.Wait()
	}
}

func (x *Explorer) done(r *PathResult) {
	x.mu.Lock()
	x.active--
	x.paths++
	x.results = append(x.results, r)
	if x.eng.maxPaths > 0 && x.paths >= x.eng.maxPaths {
		x.stopped = true
	}
	if !x.deadline.IsZero() && time.Now().After(x.deadline) {
		x.stopped = true
	}
	x.mu.Unlock()
	x.cond.Broadcast()
}

// Explore runs all paths of entry with nworkers parallel workers.
func (e *Engine) Explore(entry *ssa.Function, nworkers int, deadline time.Time) *Explorer {
	x := &Explorer{eng: e, entry: entry, deadline: deadline}
	x.cond = sync.NewCond(&x.mu)
	x.frontier = [][]Decision{nil}
	var wg sync.WaitGroup
	for w := 0; w < nworkers; w++ {
		wg.Add(1)
		go func() {
			defer wg.Done()
			s, err := NewSolver(e.solverKind, e.timeoutMs)
			if err != nil {
				x.mu.Lock()
				x.errors = append(x.errors, err.Error())
				x.mu.Unlock()
				return
			}
			defer func() {
				x.mu.Lock()
				x.solverT += s.Time
				x.queries += s.Queries
				x.mu.Unlock()
				s.Close()
			}()
			for {
				p, ok := x.take()
				if !ok {
					return
				}
				r := e.runPath(x, s, entry, p)
				x.done(r)
			}
		}()
	}
	wg.Wait()
	return x
}

// ReplayConcrete re-executes one counterexample inside the executor with every
// input fixed to its model value and the recorded scheduling/choice decisions;
// it reports whether a violation with the same label shows up again.
func (e *Engine) ReplayConcrete(entry *ssa.Function, v *Violation) (bool, string) {
	s, err := NewSolver(e.solverKind, e.timeoutMs)
	if err != nil {
		return false, err.Error()
	}
	defer s.Close()
	var prefix []Decision
	for _, c := range v.Choices {
		prefix = append(prefix, Decision{Kind: 'c', N: c})
	}
	x := &Explorer{eng: e, entry: entry}
	x.cond = sync.NewCond(&x.mu)
	e.fixedInputs = v.Model
	res := e.runPath(x, s, entry, prefix)
	e.fixedInputs = nil
	for _, rv := range res.Violations {
		if rv.Label == v.Label {
			return true, rv.Detail
		}
	}
	return false, res.Status + ": " + firstLine(res.Msg)
}

func (e *Engine) runPath(x *Explorer, s *Solver, entry *ssa.Function, prefix []Decision) (res *PathResult) {
	s.Reset()
	s.Errors = nil
	q0 := s.Queries
	in := &Interp{
		fixed: e.fixedInputs,
		eng: e, eng2: x, F: NewFactory(), S: s, prog: e.prog,
		prefix:    prefix,
		globals:   map[*ssa.Global]*Object{},
		initDone:  map[*ssa.Package]bool{},
		initBroken: map[*ssa.Package]bool{},
		inputSeen: map[string]int{},
		locks:     map[string]*lockState{},
		sides:     map[string]Value{},
		funcsSeen: map[*ssa.Function]bool{},
		params:    e.params,
	}
	res = &PathResult{Status: "ok", Reached: map[string]bool{}}
	in.res = res
	in.sched = newScheduler(in)
	defer func() {
		res.Decisions = len(in.taken)
		res.Funcs = in.funcsSeen
		res.Queries = s.Queries - q0
		res.Observed = in.observed
		if len(s.Errors) > 0 && res.Status == "ok" {
			res.Status = "unknown"
			res.Msg = "solver error: " + s.Errors[0]
		}
		res.Sample = in.sample()
	}()
	in.sched.runMain(func() {
		in.callSSA(nil, entry, nil, nil)
	})
	return res
}

// finishPath interprets the outcome of the main function (called by scheduler).
func (in *Interp) recordOutcome(r interface{}) {
	res := in.res
	switch e := r.(type) {
	case nil:
	case *GoPanic:
		m := map[string]uint64{}
		if in.S.Check() == Sat {
			m = in.model()
		}
		msg := describe(e.val)
		if iv, ok := e.val.(Iface); ok {
			if s, ok := iv.v.(Str); ok {
				if cs, ok := s.Concrete(); ok {
					msg = cs
				}
			}
		}
		res.Violations = append(res.Violations, &Violation{Label: "unexpected-panic", Key: "panic:" + panicKey(msg, e.trace), Kind: "panic", Model: m, Choices: in.choicesTaken(), Detail: msg + " @ " + e.trace})
	case *pathEnd:
		res.Status = e.kind
		res.Msg = e.msg
	case *EngineError:
		res.Status = "error"
		res.Msg = e.msg + "\n" + string(debug.Stack())
	default:
		res.Status = "error"
		res.Msg = fmt.Sprintf("engine crash: %v\n%s", r, debug.Stack())
	}
}

func panicKey(msg, trace string) string {
	// strip numbers so the key names the kind of panic
	f := strings.Fields(msg)
	if len(f) > 4 {
		f = f[:4]
	}
	return strings.Join(f, "_")
}

func (in *Interp) sample() string {
	var parts []string
	for _, d := range in.taken {
		switch d.Kind {
		case 'b':
			if d.B {
				parts = append(parts, "T")
			} else {
				parts = append(parts, "F")
			}
		case 'c':
			parts = append(parts, fmt.Sprintf("c%d", d.N))
		case 'v':
			if d.B {
				parts = append(parts, fmt.Sprintf("=%d", d.V))
			}
		}
	}
	s := strings.Join(parts, "")
	if len(s) > 120 {
		s = s[:120] + "…"
	}
	return s
}

func sortedKeys(m map[string]bool) []string {
	var ks []string
	for k := range m {
		ks = append(ks, k)
	}
	sort.Strings(ks)
	return ks
}

var _ = os.Exit
