package main

// One live solver process per worker, driven over stdin/stdout in SMT-LIB2.

import (
	"bufio"
	"fmt"
	"io"
	"os"
	"os/exec"
	"strings"
	"time"
)

type SatResult int

const (
	Unsat SatResult = iota
	Sat
	Unknown
)

func (r SatResult) String() string {
	return [...]string{"unsat", "sat", "unknown"}[r]
}

type SolverKind int

const (
	Z3 SolverKind = iota
	Z3New
	CVC5
)

type Solver struct {
	kind    SolverKind
	cmd     *exec.Cmd
	in      io.WriteCloser
	out     *bufio.Reader
	defined map[int]bool
	defStk  [][]int
	declVar map[string]bool
	varStk  [][]string
	Queries int
	Time    time.Duration
	Errors  []string
	timeout int // ms per query
	log     *os.File
	dead    bool
}

func NewSolver(kind SolverKind, timeoutMs int) (*Solver, error) {
	var cmd *exec.Cmd
	switch kind {
	case Z3:
		cmd = exec.Command("/usr/bin/z3", "-in", "-smt2")
	case Z3New:
		cmd = exec.Command("z3-new", "-in", "-smt2")
	case CVC5:
		cmd = exec.Command("cvc5", "--incremental", "--lang=smt2", fmt.Sprintf("--tlimit-per=%d", timeoutMs))
	}
	in, err := cmd.StdinPipe()
	if err != nil {
		return nil, err
	}
	outp, err := cmd.StdoutPipe()
	if err != nil {
		return nil, err
	}
	cmd.Stderr = nil
	if err := cmd.Start(); err != nil {
		return nil, err
	}
	s := &Solver{kind: kind, cmd: cmd, in: in, out: bufio.NewReaderSize(outp, 1<<16), timeout: timeoutMs}
	if p := os.Getenv("GOSMT_SMTLOG"); p != "" {
		s.log, _ = os.OpenFile(fmt.Sprintf("%s.%d", p, cmd.Process.Pid), os.O_CREATE|os.O_WRONLY|os.O_TRUNC, 0o644)
	}
	s.Reset()
	return s, nil
}

func (s *Solver) send(str string) {
	if s.log != nil {
		s.log.WriteString(str)
	}
	if _, err := io.WriteString(s.in, str); err != nil {
		s.dead = true
	}
}

func (s *Solver) Reset() {
	s.defined = map[int]bool{}
	s.declVar = map[string]bool{}
	s.defStk = nil
	s.varStk = nil
	if s.kind == CVC5 {
		s.send("(reset)\n(set-option :produce-models true)\n(set-logic ALL)\n")
	} else {
		s.send(fmt.Sprintf("(reset)\n(set-option :produce-models true)\n(set-option :timeout %d)\n", s.timeout))
	}
}

func (s *Solver) Close() {
	s.send("(exit)\n")
	s.in.Close()
	done := make(chan struct{})
	go func() { s.cmd.Wait(); close(done) }()
	select {
	case <-done:
	case <-time.After(2 * time.Second):
		s.cmd.Process.Kill()
	}
	if s.log != nil {
		s.log.Close()
	}
}

func (s *Solver) Push() {
	s.defStk = append(s.defStk, nil)
	s.varStk = append(s.varStk, nil)
	s.send("(push 1)\n")
}

func (s *Solver) Pop() {
	n := len(s.defStk) - 1
	for _, id := range s.defStk[n] {
		delete(s.defined, id)
	}
	for _, v := range s.varStk[n] {
		delete(s.declVar, v)
	}
	s.defStk = s.defStk[:n]
	s.varStk = s.varStk[:n]
	s.send("(pop 1)\n")
}

// define emits declarations/definitions for every sub-term not yet known.
func (s *Solver) define(t *Term, sb *strings.Builder) {
	if t.konst {
		return
	}
	if t.op == "var" {
		if !s.declVar[t.name] {
			s.declVar[t.name] = true
			if n := len(s.varStk); n > 0 {
				s.varStk[n-1] = append(s.varStk[n-1], t.name)
			}
			fmt.Fprintf(sb, "(declare-const %s %s)\n", t.ref(), t.sort.String())
		}
		return
	}
	if s.defined[t.id] {
		return
	}
	// iterative post-order to avoid deep recursion on long chains
	type fr struct {
		t *Term
		i int
	}
	stk := []fr{{t, 0}}
	for len(stk) > 0 {
		top := &stk[len(stk)-1]
		if top.i < len(top.t.args) {
			c := top.t.args[top.i]
			top.i++
			if c.konst {
				continue
			}
			if c.op == "var" {
				s.define(c, sb)
				continue
			}
			if !s.defined[c.id] {
				stk = append(stk, fr{c, 0})
			}
			continue
		}
		x := top.t
		stk = stk[:len(stk)-1]
		if s.defined[x.id] {
			continue
		}
		s.defined[x.id] = true
		if n := len(s.defStk); n > 0 {
			s.defStk[n-1] = append(s.defStk[n-1], x.id)
		}
		fmt.Fprintf(sb, "(define-fun %s () %s %s)\n", x.ref(), x.sort.String(), x.body())
	}
}

func (s *Solver) Assert(t *Term) {
	if t.IsTrue() {
		return
	}
	var sb strings.Builder
	s.define(t, &sb)
	fmt.Fprintf(&sb, "(assert %s)\n", t.ref())
	s.send(sb.String())
}

func (s *Solver) readLine() string {
	line, err := s.out.ReadString('\n')
	if err != nil {
		s.dead = true
		return "(error \"solver died\")"
	}
	return strings.TrimSpace(line)
}

func (s *Solver) Check() SatResult {
	if s.dead {
		return Unknown
	}
	start := time.Now()
	s.send("(check-sat)\n")
	s.Queries++
	var res SatResult = Unknown
	for done := false; !done; {
		line := s.readLine()
		if line == "" {
			if s.dead {
				break
			}
			continue
		}
		if strings.HasPrefix(line, "(error") {
			s.Errors = append(s.Errors, line)
			if s.dead {
				break
			}
			continue
		}
		switch line {
		case "sat":
			res = Sat
			done = true
		case "unsat":
			res = Unsat
			done = true
		case "unknown", "timeout":
			res = Unknown
			done = true
		default:
			s.Errors = append(s.Errors, "unexpected: "+line)
		}
	}
	s.Time += time.Since(start)
	if len(s.Errors) > 0 {
		return Unknown
	}
	return res
}

// CheckWith checks satisfiability of the current assertions plus extra.
func (s *Solver) CheckWith(extra *Term) SatResult {
	if extra.IsFalse() {
		return Unsat
	}
	s.Push()
	s.Assert(extra)
	r := s.Check()
	s.Pop()
	return r
}

// Values returns the model values of the given terms (call after Sat).
func (s *Solver) Values(ts []*Term) map[*Term]uint64 {
	res := map[*Term]uint64{}
	if len(ts) == 0 {
		return res
	}
	var sb strings.Builder
	for _, t := range ts {
		s.define(t, &sb)
	}
	sb.WriteString("(get-value (")
	for _, t := range ts {
		sb.WriteString(t.ref())
		sb.WriteByte(' ')
	}
	sb.WriteString("))\n")
	s.send(sb.String())
	// read balanced s-expression
	var buf strings.Builder
	depth := 0
	started := false
	for {
		line := s.readLine()
		if strings.HasPrefix(line, "(error") {
			s.Errors = append(s.Errors, line)
			return res
		}
		buf.WriteString(line)
		buf.WriteByte(' ')
		for _, c := range line {
			if c == '(' {
				depth++
				started = true
			} else if c == ')' {
				depth--
			}
		}
		if started && depth <= 0 {
			break
		}
		if s.dead {
			return res
		}
	}
	toks := tokenize(buf.String())
	// expected: ( ( name value ) ( name value ) ... ) where value may be nested (fp ...)
	pos := 1
	for _, t := range ts {
		if pos >= len(toks) || toks[pos] != "(" {
			break
		}
		pos++ // (
		// name may itself be an expression; skip one sexpr
		pos = skipSexpr(toks, pos)
		vstart := pos
		pos = skipSexpr(toks, pos)
		res[t] = parseValue(toks[vstart:pos])
		pos++ // )
	}
	return res
}

func tokenize(s string) []string {
	var toks []string
	cur := strings.Builder{}
	flush := func() {
		if cur.Len() > 0 {
			toks = append(toks, cur.String())
			cur.Reset()
		}
	}
	for _, c := range s {
		switch c {
		case '(', ')':
			flush()
			toks = append(toks, string(c))
		case ' ', '\t', '\n':
			flush()
		default:
			cur.WriteRune(c)
		}
	}
	flush()
	return toks
}

func skipSexpr(toks []string, pos int) int {
	if pos >= len(toks) {
		return pos
	}
	if toks[pos] != "(" {
		return pos + 1
	}
	d := 0
	for pos < len(toks) {
		if toks[pos] == "(" {
			d++
		} else if toks[pos] == ")" {
			d--
			if d == 0 {
				return pos + 1
			}
		}
		pos++
	}
	return pos
}

func parseValue(toks []string) uint64 {
	if len(toks) == 1 {
		t := toks[0]
		switch {
		case t == "true":
			return 1
		case t == "false":
			return 0
		case strings.HasPrefix(t, "#x"):
			var v uint64
			fmt.Sscanf(t[2:], "%x", &v)
			return v
		case strings.HasPrefix(t, "#b"):
			var v uint64
			for _, c := range t[2:] {
				v = v<<1 | uint64(c-'0')
			}
			return v
		}
		return 0
	}
	// (fp #b. #b... #b...) -> raw bits ; (_ bvN w)
	if len(toks) >= 5 && toks[1] == "fp" {
		return parseValue(toks[2:3])<<63 | parseValue(toks[3:4])<<52 | parseValue(toks[4:5])
	}
	if len(toks) >= 4 && toks[1] == "_" && strings.HasPrefix(toks[2], "bv") {
		var v uint64
		fmt.Sscanf(toks[2][2:], "%d", &v)
		return v
	}
	return 0
}
