package main

// Local merging: an If whose arms are straight-line, side-effect-free and meet
// at a common successor is evaluated on both arms and the join's phis become
// ite terms, instead of forking the path. Anything that could fork, panic,
// store or call aborts the speculation and the ordinary fork happens.

import (
	"go/token"
	"go/types"

	"golang.org/x/tools/go/ssa"
)

type specAbort struct{}

var simpleBlockCache = map[*ssa.BasicBlock]int8{}

// simpleBlock reports whether b has a single predecessor, ends in a Jump and
// contains only pure instructions.
func simpleBlock(b *ssa.BasicBlock) bool {
	if len(b.Preds) != 1 || len(b.Instrs) == 0 || len(b.Instrs) > 12 {
		return false
	}
	if _, ok := b.Instrs[len(b.Instrs)-1].(*ssa.Jump); !ok {
		return false
	}
	for _, ins := range b.Instrs[:len(b.Instrs)-1] {
		switch x := ins.(type) {
		case *ssa.BinOp:
			if x.Op == token.QUO || x.Op == token.REM || x.Op == token.SHL || x.Op == token.SHR {
				return false
			}
		case *ssa.UnOp:
			if x.Op == token.ARROW {
				return false
			}
		case *ssa.Convert, *ssa.ChangeType, *ssa.IndexAddr, *ssa.FieldAddr, *ssa.Field, *ssa.Index,
			*ssa.DebugRef, *ssa.Extract, *ssa.MakeInterface, *ssa.ChangeInterface:
		default:
			return false
		}
	}
	return true
}

func (in *Interp) specRun(fr *Frame, b *ssa.BasicBlock) (ok bool) {
	in.spec++
	defer func() {
		in.spec--
		if r := recover(); r != nil {
			if _, is := r.(specAbort); is {
				ok = false
				return
			}
			panic(r)
		}
	}()
	for _, ins := range b.Instrs[:len(b.Instrs)-1] {
		in.visit(fr, ins)
	}
	return true
}

func mergeVal(in *Interp, c *Term, a, b Value) (Value, bool) {
	if ta, ok := a.(*Term); ok {
		if tb, ok := b.(*Term); ok && ta.sort == tb.sort {
			return in.F.Ite(c, ta, tb), true
		}
		return nil, false
	}
	switch x := a.(type) {
	case Str:
		y, ok := b.(Str)
		if !ok || x.Len() != y.Len() {
			return nil, false
		}
		if x.sym == nil && y.sym == nil && x.s == y.s {
			return x, true
		}
		xb, yb := in.strBytes(x), in.strBytes(y)
		r := make([]*Term, len(xb))
		for i := range xb {
			r[i] = in.F.Ite(c, xb[i], yb[i])
		}
		return in.strFromBytes(r), true
	case *Ptr:
		y, ok := b.(*Ptr)
		if !ok {
			return nil, false
		}
		if eq, conc := ptrEqualConcrete(x, y); conc && eq {
			return x, true
		}
	}
	return nil, false
}

// tryMerge handles triangles and diamonds rooted at the If ending fr.block.
func (in *Interp) tryMerge(fr *Frame, ins *ssa.If, c *Term) bool {
	if in.spec > 0 {
		panic(specAbort{})
	}
	blk := fr.block
	t, f := blk.Succs[0], blk.Succs[1]
	var join *ssa.BasicBlock
	var tSimple, fSimple bool
	switch {
	case simpleBlock(t) && t.Succs[0] == f:
		join, tSimple = f, true
	case simpleBlock(f) && f.Succs[0] == t:
		join, fSimple = t, true
	case simpleBlock(t) && simpleBlock(f) && t.Succs[0] == f.Succs[0]:
		join, tSimple, fSimple = t.Succs[0], true, true
	default:
		return false
	}
	// the join must start with phis only fed by these edges (other preds are fine)
	nphi := 0
	for _, i := range join.Instrs {
		if _, ok := i.(*ssa.Phi); !ok {
			break
		}
		nphi++
	}
	if nphi == 0 {
		// nothing observable differs except side effects, which simple blocks have none of;
		// still only worth merging when the arms are pure: skip the fork entirely.
	}
	if tSimple && !in.specRun(fr, t) {
		return false
	}
	if fSimple && !in.specRun(fr, f) {
		return false
	}
	predT, predF := blk, blk
	if tSimple {
		predT = t
	}
	if fSimple {
		predF = f
	}
	vals := make([]Value, nphi)
	for k := 0; k < nphi; k++ {
		phi := join.Instrs[k].(*ssa.Phi)
		var vt, vf Value
		var haveT, haveF bool
		for i, p := range join.Preds {
			if p == predT && !haveT {
				vt, haveT = fr.get(phi.Edges[i]), true
			}
			if p == predF && !haveF {
				vf, haveF = fr.get(phi.Edges[i]), true
			}
		}
		if predT == predF {
			// both edges come from blk itself (degenerate); do not merge
			return false
		}
		if !haveT || !haveF {
			return false
		}
		m, ok := mergeVal(in, c, vt, vf)
		if !ok {
			return false
		}
		vals[k] = m
	}
	if nphi > 0 {
		fr.phiOverride = vals
	}
	// enter the join as if coming from one of the arms
	fr.prev, fr.block = predT, join
	in.merges++
	return true
}

// symCellMax bounds the cells physically modelled for a symbolic-length slice.
const symCellMax = 70000

// makeSymSlice models make([]T, n) with a symbolic n as a symbolic-length
// slice. Only scalar element types are supported; small ranges are left to
// concretisation by fork.
func (in *Interp) makeSymSlice(ins *ssa.MakeSlice, lt *Term) (SliceV, bool) {
	et := ins.Type().Underlying().(*types.Slice).Elem()
	if _, _, ok := intWidth(et); !ok {
		return SliceV{}, false
	}
	_, hi, _ := in.F.urange(lt)
	if hi <= 16 {
		return SliceV{}, false
	}
	if _, signed, _ := intWidth(ins.Len.Type()); signed {
		if in.decide(in.F.SLt(lt, in.F.Const(64, 0))) {
			in.goPanicRuntime("makeslice: len out of range")
		}
	}
	cells := hi
	if cells > symCellMax {
		cells = symCellMax
	}
	sl := in.makeSlice(et, int(cells), int(cells))
	sl.slen = lt
	return sl, true
}
